package main

import (
	"bytes"
	"crypto/x509"
	"fmt"
	"io"
	"log"
	"net/http"
	"net/url"
	"sort"
	"time"

	sxg "github.com/WICG/webpackage/go/signedexchange"
	"github.com/WICG/webpackage/go/signedexchange/version"
	vh "github.com/WICG/webpackage/go/verifhook"
)

func versionOf(s Sx) version.Version {
	switch string(s.B) {
	case "b1":
		return version.Version1b1
	case "b2":
		return version.Version1b2
	}
	return version.Version1b3
}

func versionSx(v version.Version) Sx {
	switch v {
	case version.Version1b1:
		return Sym("b1")
	case version.Version1b2:
		return Sym("b2")
	}
	return Sym("b3")
}

func headerOf(s Sx) http.Header {
	h := http.Header{}
	for _, p := range s.L {
		if len(p.L) == 3 { // verbatim key, as in a caller-built map literal
			h[string(p.L[0].B)] = append(h[string(p.L[0].B)], string(p.L[1].B))
		} else {
			h.Add(string(p.L[0].B), string(p.L[1].B))
		}
	}
	return h
}

func headerSx(h http.Header) Sx {
	names := []string{}
	for k := range h {
		names = append(names, k)
	}
	sort.Strings(names)
	out := []Sx{}
	for _, k := range names {
		vs := []Sx{}
		for _, v := range h[k] {
			vs = append(vs, B([]byte(v)))
		}
		out = append(out, L(B([]byte(k)), L(vs...)))
	}
	return L(out...)
}

// exchange: (ver uri method ((k v)...) status ((k v)...) sig payload)
func exchangeOf(s Sx) *sxg.Exchange {
	e := sxg.NewExchange(versionOf(s.L[0]), string(s.L[1].B), string(s.L[2].B), headerOf(s.L[3]),
		s.L[4].Int(), headerOf(s.L[5]), append([]byte{}, s.L[7].B...))
	e.SignatureHeaderValue = string(s.L[6].B)
	return e
}

func exchangeSx(e *sxg.Exchange) Sx {
	return L(versionSx(e.Version), B([]byte(e.RequestURI)), B([]byte(e.RequestMethod)), headerSx(e.RequestHeaders),
		Zi(int64(e.ResponseStatus)), headerSx(e.ResponseHeaders), B([]byte(e.SignatureHeaderValue)), B(e.Payload))
}

// input form of an in-memory exchange (headers as ordered pairs)
func exchangeInSx(e *sxg.Exchange) Sx {
	pairs := func(h http.Header) Sx {
		names := []string{}
		for k := range h {
			names = append(names, k)
		}
		sort.Strings(names)
		out := []Sx{}
		for _, k := range names {
			for _, v := range h[k] {
				if http.CanonicalHeaderKey(k) != k {
					out = append(out, L(B([]byte(k)), B([]byte(v)), Sym("raw")))
				} else {
					out = append(out, L(B([]byte(k)), B([]byte(v))))
				}
			}
		}
		return L(out...)
	}
	return L(versionSx(e.Version), B([]byte(e.RequestURI)), B([]byte(e.RequestMethod)), pairs(e.RequestHeaders),
		Zi(int64(e.ResponseStatus)), pairs(e.ResponseHeaders), B([]byte(e.SignatureHeaderValue)), B(e.Payload))
}

func fakeCerts(s Sx) []*x509.Certificate {
	out := []*x509.Certificate{}
	for _, c := range s.L {
		out = append(out, &x509.Certificate{Raw: append([]byte{}, c.B...)})
	}
	return out
}

// mustURL parses s; a string url.Parse refuses becomes an opaque URL whose String() is s again
// (the only way a library user can hold such a URL: a hand-built url.URL)
func mustURL(s string) *url.URL {
	u, err := url.Parse(s)
	if err != nil {
		return &url.URL{Opaque: s}
	}
	return u
}

func fetcherOf(tab Sx) sxg.CertFetcher {
	return func(u string) ([]byte, error) {
		for _, ent := range tab.L {
			if string(ent.L[0].B) == u {
				if len(ent.L) == 2 && ent.L[1].K == 1 {
					return ent.L[1].B, nil
				}
				return nil, fmt.Errorf("fetch failed")
			}
		}
		return nil, fmt.Errorf("no such cert url")
	}
}

var discardLog = log.New(io.Discard, "", 0)

func verdictSx(p []byte, ok bool) Sx {
	if ok {
		return L(Sym("valid"), B(p))
	}
	return L(Sym("invalid"))
}

func init() {
	regOp("sxg_headers", func(a []Sx) Sx {
		var buf bytes.Buffer
		if err := exchangeOf(a[0]).DumpExchangeHeaders(&buf); err != nil {
			return ErrV()
		}
		return OkV(B(buf.Bytes()))
	})
	regOp("sxg_header_integrity", func(a []Sx) Sx {
		s, err := exchangeOf(a[0]).ComputeHeaderIntegrity()
		if err != nil {
			return ErrV()
		}
		return OkV(B([]byte(s)))
	})
	regOp("sxg_write", func(a []Sx) Sx {
		var first, buf bytes.Buffer
		e := exchangeOf(a[0])
		err0 := e.Write(&first) // written twice: both writes must agree
		err := e.Write(&buf)
		if (err0 == nil) != (err == nil) || (err == nil && !bytes.Equal(first.Bytes(), buf.Bytes())) {
			return L(Sym("second_write_differs"))
		}
		if err != nil {
			return ErrV()
		}
		return OkV(B(buf.Bytes()))
	})
	regOp("sxg_read", func(a []Sx) Sx {
		src0, spoil0 := ownedSrc(a[0].B) // read, vandalise the result, read again
		if e0, err0 := sxg.ReadExchange(src0); err0 == nil {
			for _, h := range []http.Header{e0.RequestHeaders, e0.ResponseHeaders} {
				for k, vs := range h {
					for i := range vs {
						vs[i] = "vandal"
					}
					h[k] = append(vs, "more")
				}
				if h != nil {
					h["X-Vandal"] = []string{"1"}
				}
			}
			scribble(e0.Payload)
			e0.RequestURI, e0.RequestMethod, e0.ResponseStatus, e0.SignatureHeaderValue = "https://vandal.test/", "POST", 599, "vandal"
		}
		spoil0()
		src, spoil := ownedSrc(a[0].B)
		e, err := sxg.ReadExchange(src)
		spoil()
		if err != nil {
			return ErrV()
		}
		return OkV(exchangeSx(e))
	})
	regOp("sxg_mi_encode", func(a []Sx) Sx {
		e := exchangeOf(a[0])
		if err := e.MiEncodePayload(a[1].Int()); err != nil {
			return ErrV()
		}
		return OkV(exchangeSx(e))
	})
	regOp("sxg_signed_message", func(a []Sx) Sx {
		e := exchangeOf(a[0])
		s := &sxg.Signer{Date: time.Unix(a[3].I64(), 0), Expires: time.Unix(a[4].I64(), 0),
			Certs: fakeCerts(a[1]), ValidityUrl: mustURL(string(a[2].B))}
		var buf bytes.Buffer
		if err := e.DumpSignedMessage(&buf, s); err != nil {
			return ErrV()
		}
		return OkV(B(buf.Bytes()))
	})
	regOp("sxg_sigheader", func(a []Sx) Sx {
		e := exchangeOf(a[0])
		s := &sxg.Signer{Date: time.Unix(a[4].I64(), 0), Expires: time.Unix(a[5].I64(), 0),
			Certs: fakeCerts(a[1]), CertUrl: mustURL(string(a[2].B)), ValidityUrl: mustURL(string(a[3].B)),
			Algorithm: &vh.MockSigningAlgorithm{}}
		if err := e.AddSignatureHeader(s); err != nil {
			return ErrV()
		}
		return OkV(B([]byte(e.SignatureHeaderValue)))
	})
	regOp("sxg_verify", func(a []Sx) Sx {
		e := exchangeOf(a[0])
		p, ok := e.Verify(time.Unix(a[1].I64(), a[2].I64()), fetcherOf(a[4]), discardLog)
		return verdictSx(p, ok)
	})
	// C02's last clause on the implementation itself: verdict before and after write/read
	regOp("sxg_verdict_roundtrip", func(a []Sx) Sx {
		e := exchangeOf(a[0])
		t := time.Unix(a[1].I64(), a[2].I64())
		p1, ok1 := e.Verify(t, fetcherOf(a[4]), discardLog)
		v1 := verdictSx(append([]byte{}, p1...), ok1)
		var buf bytes.Buffer
		if err := e.Write(&buf); err != nil {
			return L(Sym("refused"), v1)
		}
		e2, err := sxg.ReadExchange(bytes.NewReader(buf.Bytes()))
		if err != nil {
			return L(Sym("unreadable"), v1)
		}
		p2, ok2 := e2.Verify(t, fetcherOf(a[4]), discardLog)
		return L(Sym("written"), v1, verdictSx(p2, ok2))
	})
	regOp("sxg_read_verify", func(a []Sx) Sx {
		src, spoil := ownedSrc(a[0].B)
		e, err := sxg.ReadExchange(src)
		spoil()
		if err != nil {
			return L(Sym("invalid"))
		}
		p, ok := e.Verify(time.Unix(a[1].I64(), a[2].I64()), fetcherOf(a[4]), discardLog)
		return verdictSx(p, ok)
	})
	// ReadExchange, Verify, Verify again, Write: Verify must leave the exchange as it was
	regOp("sxg_read_verify_history", func(a []Sx) Sx {
		e, err := sxg.ReadExchange(bytes.NewReader(a[0].B))
		if err != nil {
			return L(Sym("invalid"))
		}
		t := time.Unix(a[1].I64(), a[2].I64())
		p1, ok1 := e.Verify(t, fetcherOf(a[4]), discardLog)
		v1 := verdictSx(append([]byte{}, p1...), ok1)
		p2, ok2 := e.Verify(t, fetcherOf(a[4]), discardLog)
		v2 := verdictSx(p2, ok2)
		var buf bytes.Buffer
		werr := e.Write(&buf)
		return L(v1, v2, bytesR(buf.Bytes(), werr))
	})
	// one Exchange verified with a sequence of different fetchers
	regOp("sxg_read_verify_seq", func(a []Sx) Sx {
		e, err := sxg.ReadExchange(bytes.NewReader(a[0].B))
		if err != nil {
			return L(Sym("invalid"))
		}
		t := time.Unix(a[1].I64(), a[2].I64())
		out := []Sx{}
		for _, ft := range a[4].L {
			p, ok := e.Verify(t, fetcherOf(ft), discardLog)
			out = append(out, verdictSx(append([]byte{}, p...), ok))
		}
		return L(out...)
	})
	regOp("sxg_read_edit_verify", func(a []Sx) Sx {
		e, err := sxg.ReadExchange(bytes.NewReader(a[0].B))
		if err != nil {
			return L(Sym("invalid"))
		}
		for _, ed := range a[1].L {
			switch string(ed.L[0].B) {
			case "status":
				e.ResponseStatus = ed.L[1].Int()
			case "addresp":
				e.ResponseHeaders.Add(string(ed.L[1].B), string(ed.L[2].B))
			case "addreq":
				e.RequestHeaders.Add(string(ed.L[1].B), string(ed.L[2].B))
			case "method":
				e.RequestMethod = string(ed.L[1].B)
			case "payload":
				e.Payload = append([]byte{}, ed.L[1].B...)
			}
		}
		p, ok := e.Verify(time.Unix(a[2].I64(), a[3].I64()), fetcherOf(a[5]), discardLog)
		return verdictSx(p, ok)
	})
	regOp("sxg_history", func(a []Sx) Sx {
		e := exchangeOf(a[0])
		out := []Sx{}
		for _, act := range a[1].L {
			switch string(act.L[0].B) {
			case "integrity":
				s, err := e.ComputeHeaderIntegrity()
				out = append(out, bytesR([]byte(s), err))
			case "headers":
				var buf bytes.Buffer
				err := e.DumpExchangeHeaders(&buf)
				out = append(out, bytesR(buf.Bytes(), err))
			case "write":
				var buf bytes.Buffer
				err := e.Write(&buf)
				out = append(out, bytesR(buf.Bytes(), err))
			case "miencode":
				if err := e.MiEncodePayload(act.L[1].Int()); err != nil {
					out = append(out, L(Sym("err")))
				} else {
					out = append(out, L(Sym("ok")))
				}
			case "status":
				e.ResponseStatus = act.L[1].Int()
			case "addresp":
				e.ResponseHeaders.Add(string(act.L[1].B), string(act.L[2].B))
			case "addreq":
				e.RequestHeaders.Add(string(act.L[1].B), string(act.L[2].B))
			case "method":
				e.RequestMethod = string(act.L[1].B)
			case "payload":
				e.Payload = append([]byte{}, act.L[1].B...)
			}
		}
		return L(out...)
	})
	regOp("bigendian", func(a []Sx) Sx {
		b, err := sxg.VerifEncodeBytesUint(a[0].I64(), a[1].Int())
		if err != nil {
			return ErrV()
		}
		return OkV(B(b))
	})
	regOp("url", func(a []Sx) Sx {
		u, err := url.Parse(string(a[0].B))
		if err != nil {
			return L(Sym("err"))
		}
		return L(Sym("ok"), B([]byte(u.Scheme)), B([]byte(u.Host)))
	})
}
