module verifharness

go 1.20

require github.com/WICG/webpackage v0.0.0

replace github.com/WICG/webpackage => /repo
