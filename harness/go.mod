module verifharness

go 1.20

require (
	github.com/WICG/webpackage v0.0.0
	github.com/youmark/pkcs8 v0.0.0-20201027041543-1326539a0a0a
)

require (
	golang.org/x/crypto v0.31.0 // indirect
	golang.org/x/sys v0.28.0 // indirect
	golang.org/x/term v0.27.0 // indirect
)

replace github.com/WICG/webpackage => /repo
