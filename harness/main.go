package main

import (
	"bufio"
	"bytes"
	"flag"
	"fmt"
	"os"
	"os/exec"
	"runtime"
	"sort"
	"strings"
	"sync"
	"time"
)

// Case is one line of the protocol.
type Case struct {
	Op   string
	Args []Sx
}

func (c Case) Line() string { return c.Op + "\t" + L(c.Args...).String() }

type OpFunc func(args []Sx) Sx
type GenFunc func(r *Rng, tier string) []Case

var ops = map[string]OpFunc{}
var gens = map[string][]GenFunc{} // property id -> generators

func regOp(name string, f OpFunc)   { ops[name] = f }
func regGen(prop string, g GenFunc) { gens[prop] = append(gens[prop], g) }

// A case that has not answered within caseTimeout is reported as (timeout) -- but only after it was
// given a second chance ALONE: the limit is wall-clock time, and 16 workers of a -race build next to
// whatever else the machine is doing can overrun five seconds on code that is merely slow.  cmdRun
// re-runs every first-pass timeout in a fresh process of its own, one at a time, with confirmTimeout;
// a dead-lock or an endless loop overruns that too and stays (timeout), a starved case answers and
// its answer is what the judge sees.
var caseTimeout = 5 * time.Second
var confirmTimeout = 60 * time.Second

// at most this many cases are confirmed as timeouts one by one (each costs confirmTimeout); the
// check has failed by then, the remaining first-pass timeouts are reported as they are
const maxConfirmed = 2

// afterTicks is time.After counted in 100 ms sleeps of this process instead of read off the wall
// clock: a pause of the whole machine (a sandbox being snapshotted or resumed, a clock step) ends
// one sleep late and costs one tick however long it lasted, and a process starved of CPU gets its
// ticks late as well.  The returned stop function releases the ticking goroutine.
func afterTicks(d time.Duration) (<-chan struct{}, func()) {
	const tick = 100 * time.Millisecond
	ch := make(chan struct{})
	quit := make(chan struct{})
	var once sync.Once
	go func() {
		t := time.NewTicker(tick) // delivers at most one tick for a stall of any length
		defer t.Stop()
		for n := int(d / tick); n > 0; n-- {
			select {
			case <-quit:
				return
			case <-t.C:
			}
		}
		close(ch)
	}()
	return ch, func() { once.Do(func() { close(quit) }) }
}

func isTimeout(res string) bool {
	return res == "(timeout)" || strings.HasPrefix(res, "(timeout ")
}

// "mem" cases measure allocation of the whole process: they run alone.
var memLock sync.RWMutex

func runCase(c Case) (res Sx) {
	f, ok := ops[c.Op]
	if !ok {
		return L(Sym("unknown_op"))
	}
	if c.Op == "mem" {
		memLock.Lock()
		defer memLock.Unlock()
	} else {
		memLock.RLock()
		defer memLock.RUnlock()
	}
	done := make(chan Sx, 1)
	go func() {
		defer func() {
			if r := recover(); r != nil {
				done <- L(Sym("panic"))
			}
		}()
		done <- f(c.Args)
	}()
	expired, stop := afterTicks(caseTimeout)
	defer stop()
	select {
	case r := <-done:
		return r
	case <-expired:
		select { // both ready (the process was stalled): the answer counts
		case r := <-done:
			return r
		default:
		}
		return L(Sym("timeout"))
	}
}

func cmdGen(args []string) {
	fs := flag.NewFlagSet("gen", flag.ExitOnError)
	prop := fs.String("prop", "", "property id")
	seed := fs.Uint64("seed", 1, "seed")
	tier := fs.String("tier", "quick", "tier")
	fs.Parse(args)
	gl, ok := gens[*prop]
	if !ok {
		fmt.Fprintf(os.Stderr, "no generator for %s\n", *prop)
		os.Exit(2)
	}
	w := bufio.NewWriterSize(os.Stdout, 1<<20)
	defer w.Flush()
	base := NewRng(*seed)
	for i, g := range gl {
		for _, c := range g(base.Fork(uint64(i+1)), *tier) {
			w.WriteString(c.Line())
			w.WriteByte('\n')
		}
	}
}

func cmdRun(args []string) {
	fs := flag.NewFlagSet("run", flag.ExitOnError)
	workers := fs.Int("j", runtime.NumCPU(), "workers")
	fs.DurationVar(&caseTimeout, "timeout", caseTimeout, "per-case limit (wall clock)")
	fs.DurationVar(&confirmTimeout, "confirm", confirmTimeout, "limit of the solo re-run of a case that overran -timeout (0: no re-run)")
	fs.Parse(args)
	sc := bufio.NewScanner(os.Stdin)
	sc.Buffer(make([]byte, 1<<20), 1<<28)
	var lines []string
	for sc.Scan() {
		lines = append(lines, sc.Text())
	}
	out := make([]string, len(lines))
	var wg sync.WaitGroup
	idx := make(chan int, 1024)
	for w := 0; w < *workers; w++ {
		wg.Add(1)
		go func() {
			defer wg.Done()
			for i := range idx {
				parts := strings.SplitN(lines[i], "\t", 3)
				if len(parts) < 2 {
					out[i] = lines[i] + "\t(badline)"
					continue
				}
				a, err := ParseSx(parts[1])
				if err != nil || a.K != 2 {
					out[i] = parts[0] + "\t" + parts[1] + "\t(badline)"
					continue
				}
				t0 := time.Now()
				r := runCase(Case{Op: parts[0], Args: a.L})
				if d := time.Since(t0); d > time.Second { // diagnostic only, never part of an observation
					fmt.Fprintf(os.Stderr, "SLOW-CASE line=%d op=%s args=%dB took=%s\n", i+1, parts[0], len(parts[1]), d.Round(10*time.Millisecond))
				}
				out[i] = parts[0] + "\t" + parts[1] + "\t" + r.String()
			}
		}()
	}
	for i := range lines {
		idx <- i
	}
	close(idx)
	wg.Wait()
	if confirmTimeout > 0 {
		first, confirmed := 0, 0
		for i, l := range out {
			parts := strings.SplitN(l, "\t", 3)
			if len(parts) < 3 || !isTimeout(parts[2]) {
				continue
			}
			first++
			if confirmed >= maxConfirmed {
				continue
			}
			if r, ok := runAlone(lines[i]); ok {
				out[i] = r
				if p := strings.SplitN(r, "\t", 3); len(p) == 3 && isTimeout(p[2]) {
					confirmed++
				}
			} else {
				confirmed++ // the solo process died or gave no answer: the first-pass observation stands
			}
		}
		if first > 0 {
			fmt.Fprintf(os.Stderr, "TIMEOUT-RERUN first_pass=%d still_timeout=%d limit=%s\n", first, confirmed, confirmTimeout)
		}
	}
	w := bufio.NewWriterSize(os.Stdout, 1<<20)
	defer w.Flush()
	for _, l := range out {
		w.WriteString(l)
		w.WriteByte('\n')
	}
}

// runAlone runs one case line in a fresh process of this binary, by itself, under confirmTimeout.
func runAlone(line string) (string, bool) {
	cmd := exec.Command(os.Args[0], "run", "-j", "1", "-timeout", confirmTimeout.String(), "-confirm", "0")
	cmd.Stdin = strings.NewReader(line + "\n")
	var so bytes.Buffer
	cmd.Stdout = &so
	cmd.Stderr = os.Stderr // a DATA RACE report of the solo run is a report of this run
	done := make(chan error, 1)
	if err := cmd.Start(); err != nil {
		return "", false
	}
	go func() { done <- cmd.Wait() }()
	expired, stop := afterTicks(confirmTimeout + 30*time.Second)
	defer stop()
	select {
	case err := <-done:
		res := strings.TrimSuffix(so.String(), "\n")
		if (err != nil && so.Len() == 0) || strings.Count(res, "\n") != 0 || res == "" {
			return "", false
		}
		return res, true
	case <-expired:
		cmd.Process.Kill()
		return "", false
	}
}

func main() {
	if len(os.Args) < 2 {
		fmt.Fprintln(os.Stderr, "usage: harness gen|run|ops ...")
		os.Exit(2)
	}
	switch os.Args[1] {
	case "gen":
		cmdGen(os.Args[2:])
	case "run":
		cmdRun(os.Args[2:])
	case "params":
		cmdParams(os.Args[2:])
	case "firstuse":
		cmdFirstUse()
	case "ops":
		names := []string{}
		for k := range ops {
			names = append(names, k)
		}
		sort.Strings(names)
		fmt.Println(strings.Join(names, "\n"))
	default:
		fmt.Fprintln(os.Stderr, "unknown subcommand")
		os.Exit(2)
	}
}
