package main

import (
	"bufio"
	"flag"
	"fmt"
	"os"
	"runtime"
	"sort"
	"strings"
	"sync"
	"time"
)

// Case is one line of the protocol.
type Case struct {
	Op   string
	Args []Sx
}

func (c Case) Line() string { return c.Op + "\t" + L(c.Args...).String() }

type OpFunc func(args []Sx) Sx
type GenFunc func(r *Rng, tier string) []Case

var ops = map[string]OpFunc{}
var gens = map[string][]GenFunc{} // property id -> generators

func regOp(name string, f OpFunc)   { ops[name] = f }
func regGen(prop string, g GenFunc) { gens[prop] = append(gens[prop], g) }

var caseTimeout = 5 * time.Second

// "mem" cases measure allocation of the whole process: they run alone.
var memLock sync.RWMutex

func runCase(c Case) (res Sx) {
	f, ok := ops[c.Op]
	if !ok {
		return L(Sym("unknown_op"))
	}
	if c.Op == "mem" {
		memLock.Lock()
		defer memLock.Unlock()
	} else {
		memLock.RLock()
		defer memLock.RUnlock()
	}
	done := make(chan Sx, 1)
	go func() {
		defer func() {
			if r := recover(); r != nil {
				done <- L(Sym("panic"))
			}
		}()
		done <- f(c.Args)
	}()
	select {
	case r := <-done:
		return r
	case <-time.After(caseTimeout):
		return L(Sym("timeout"))
	}
}

func cmdGen(args []string) {
	fs := flag.NewFlagSet("gen", flag.ExitOnError)
	prop := fs.String("prop", "", "property id")
	seed := fs.Uint64("seed", 1, "seed")
	tier := fs.String("tier", "quick", "tier")
	fs.Parse(args)
	gl, ok := gens[*prop]
	if !ok {
		fmt.Fprintf(os.Stderr, "no generator for %s\n", *prop)
		os.Exit(2)
	}
	w := bufio.NewWriterSize(os.Stdout, 1<<20)
	defer w.Flush()
	base := NewRng(*seed)
	for i, g := range gl {
		for _, c := range g(base.Fork(uint64(i+1)), *tier) {
			w.WriteString(c.Line())
			w.WriteByte('\n')
		}
	}
}

func cmdRun(args []string) {
	fs := flag.NewFlagSet("run", flag.ExitOnError)
	workers := fs.Int("j", runtime.NumCPU(), "workers")
	fs.Parse(args)
	sc := bufio.NewScanner(os.Stdin)
	sc.Buffer(make([]byte, 1<<20), 1<<28)
	var lines []string
	for sc.Scan() {
		lines = append(lines, sc.Text())
	}
	out := make([]string, len(lines))
	var wg sync.WaitGroup
	idx := make(chan int, 1024)
	for w := 0; w < *workers; w++ {
		wg.Add(1)
		go func() {
			defer wg.Done()
			for i := range idx {
				parts := strings.SplitN(lines[i], "\t", 3)
				if len(parts) < 2 {
					out[i] = lines[i] + "\t(badline)"
					continue
				}
				a, err := ParseSx(parts[1])
				if err != nil || a.K != 2 {
					out[i] = parts[0] + "\t" + parts[1] + "\t(badline)"
					continue
				}
				r := runCase(Case{Op: parts[0], Args: a.L})
				out[i] = parts[0] + "\t" + parts[1] + "\t" + r.String()
			}
		}()
	}
	for i := range lines {
		idx <- i
	}
	close(idx)
	wg.Wait()
	w := bufio.NewWriterSize(os.Stdout, 1<<20)
	defer w.Flush()
	for _, l := range out {
		w.WriteString(l)
		w.WriteByte('\n')
	}
}

func main() {
	if len(os.Args) < 2 {
		fmt.Fprintln(os.Stderr, "usage: harness gen|run|ops ...")
		os.Exit(2)
	}
	switch os.Args[1] {
	case "gen":
		cmdGen(os.Args[2:])
	case "run":
		cmdRun(os.Args[2:])
	case "params":
		cmdParams(os.Args[2:])
	case "firstuse":
		cmdFirstUse()
	case "ops":
		names := []string{}
		for k := range ops {
			names = append(names, k)
		}
		sort.Strings(names)
		fmt.Println(strings.Join(names, "\n"))
	default:
		fmt.Fprintln(os.Stderr, "unknown subcommand")
		os.Exit(2)
	}
}
