package main

import (
	"bytes"
	"encoding/binary"
	"errors"
	"fmt"
	"io"
	"os"
	"path/filepath"
	"runtime"
	"testing/iotest"
	"time"

	"github.com/WICG/webpackage/go/bundle"
	"github.com/WICG/webpackage/go/bundle/signature"
	bver "github.com/WICG/webpackage/go/bundle/version"
	ib "github.com/WICG/webpackage/go/integrityblock"
	sxg "github.com/WICG/webpackage/go/signedexchange"
	"github.com/WICG/webpackage/go/signedexchange/certurl"
	"github.com/WICG/webpackage/go/signedexchange/mice"
	sh "github.com/WICG/webpackage/go/signedexchange/structuredheader"
	vh "github.com/WICG/webpackage/go/verifhook"
)

// mem kind input... : run one parser entry point on untrusted input and report
// (ok|err|panic|timeout, bytes allocated during the call)
func opMem(a []Sx) Sx {
	kind := string(a[0].B)
	in := a[1].B
	var f func() error
	switch kind {
	case "bundle_read":
		f = func() error { _, err := bundle.Read(bytes.NewReader(in)); return err }
	case "sxg_read":
		f = func() error { _, err := sxg.ReadExchange(bytes.NewReader(in)); return err }
	case "sxg_read_verify":
		chain := a[2].B
		f = func() error {
			e, err := sxg.ReadExchange(bytes.NewReader(in))
			if err != nil {
				return err
			}
			if _, ok := e.Verify(time.Unix(baseDate+10, 0), func(string) ([]byte, error) { return chain, nil }, discardLog); !ok {
				return fmt.Errorf("invalid")
			}
			return nil
		}
	case "cc_read":
		f = func() error { _, err := certurl.ReadCertChain(bytes.NewReader(in)); return err }
	case "bsig_verify":
		f = func() error {
			b, err := bundle.Read(bytes.NewReader(in))
			if err != nil {
				return err
			}
			if b.Signatures == nil {
				return fmt.Errorf("no signatures")
			}
			v, err := signature.NewVerifier(b.Signatures, time.Unix(baseDate+10, 0), b.Version)
			if err != nil {
				return err
			}
			for _, e := range b.Exchanges {
				if _, err := v.VerifyExchange(e); err != nil {
					return err
				}
			}
			return nil
		}
	case "sh_parse":
		f = func() error {
			_, e1 := sh.ParseParameterisedList(string(in))
			_, e2 := sh.ParseListOfLists(string(in))
			if e1 != nil && e2 != nil {
				return e1
			}
			return nil
		}
	case "mi_dec":
		dg := string(a[2].B)
		f = func() error {
			d, err := mice.Draft03Encoding.NewDecoder(bytes.NewReader(in), dg, 16384)
			if err != nil {
				return err
			}
			_, err = io.ReadAll(d)
			return err
		}
	case "cbor_dec":
		f = func() error {
			d := vh.CborNewDecoder(bytes.NewReader(in))
			if _, err := d.DecodeByteString(); err != nil {
				d2 := vh.CborNewDecoder(bytes.NewReader(in))
				if _, err2 := d2.DecodeTextString(); err2 != nil {
					return err
				}
			}
			return nil
		}
	case "ib_detect":
		f = func() error {
			d, clean := tmpDir()
			defer clean()
			p := filepath.Join(d, "f")
			os.WriteFile(p, in, 0600)
			fh, err := os.Open(p)
			if err != nil {
				return err
			}
			defer fh.Close()
			_, e1 := ib.WebBundleHasIntegrityBlock(fh)
			_, _, e2 := ib.ObtainIntegrityBlock(fh)
			if e1 != nil {
				return e1
			}
			return e2
		}
	default:
		return L(Sym("badkind"))
	}
	status := "ok"
	var before, after runtime.MemStats
	runtime.GC()
	runtime.ReadMemStats(&before)
	done := make(chan error, 1)
	go func() {
		defer func() {
			if r := recover(); r != nil {
				done <- fmt.Errorf("PANIC")
			}
		}()
		done <- f()
	}()
	expired, stop := afterTicks(caseTimeout - time.Second)
	defer stop()
	select {
	case err := <-done:
		if err != nil {
			status = "err"
			if err.Error() == "PANIC" {
				status = "panic"
			}
		}
	case <-expired:
		status = "timeout"
	}
	runtime.ReadMemStats(&after)
	return L(Sym(status), Zu(after.TotalAlloc-before.TotalAlloc))
}

func genC10(r *Rng, tier string) []Case {
	keysOnce()
	cs := []Case{}
	mem := func(kind string, args ...Sx) { cs = append(cs, Case{"mem", append([]Sx{Sym(kind)}, args...)}) }
	huge := []uint64{1 << 20, 1<<24 - 1, 1 << 26, 1 << 27, 1 << 30, 1<<31 - 1, 1 << 31, 1<<32 - 1, 1 << 40, 1<<63 - 1, 1 << 63, 1<<64 - 1}
	// CBOR: declared lengths far beyond the input
	for _, v := range huge {
		for _, major := range []byte{0x40, 0x60} {
			mem("cbor_dec", B(append(headBytes(major, 8, v), r.Bytes(10)...)))
		}
	}
	mem("cbor_dec", B(append(headBytes(0x40, 4, 1<<20), r.Bytes(1<<20)...)))
	// cert chain: huge array / map counts, huge strings
	for _, v := range huge {
		mem("cc_read", B(append(headBytes(0x80, 8, v), cborText("\U0001F4DC⛓")...)))
		mem("cc_read", B(append(append(headBytes(0x80, 0, 2), cborText("\U0001F4DC⛓")...), headBytes(0xa0, 8, v)...)))
		mem("cc_read", B(append(append(append(headBytes(0x80, 0, 2), cborText("\U0001F4DC⛓")...), 0xa1), append(cborText("cert"), headBytes(0x40, 8, v)...)...)))
	}
	// signed exchange prologue: every length field at its maximum with a short input
	for _, ver := range []string{"sxg1-b1\x00", "sxg1-b2\x00", "sxg1-b3\x00"} {
		for _, sl := range []int{0, 1 << 14, 1<<24 - 1} {
			for _, hl := range []int{0, 1 << 19, 1<<24 - 1} {
				in := []byte(ver)
				if ver != "sxg1-b1\x00" {
					u := "https://example.com/"
					in = append(in, byte(len(u)>>8), byte(len(u)))
					in = append(in, u...)
				}
				in = append(in, byte(sl>>16), byte(sl>>8), byte(sl), byte(hl>>16), byte(hl>>8), byte(hl))
				in = append(in, r.Bytes(20)...)
				mem("sxg_read", B(in))
			}
		}
		in := []byte(ver)
		in = append(in, 0xff, 0xff)
		mem("sxg_read", B(append(in, r.Bytes(100)...)))
	}
	// a valid signed exchange, and its response map claiming 2^32 / 2^64-1 entries
	{
		e := mkExchange(r, sxgVersions[2], exOpts{contentType: true, payloadLen: 5000, uri: "https://example.com/index.html"})
		s := signExchange(e, sxgKeys[0], 4096, baseDate, baseDate+100, "https://cert.example.org/c", "https://example.com/v")
		if s.ok {
			f := writeFile(e)
			mem("sxg_read_verify", B(f), B(s.chain))
			mem("sxg_read_verify", B(f[:len(f)-1]), B(s.chain))
			mem("sxg_read_verify", B(f), B(append(headBytes(0x80, 8, 1<<40), s.chain[1:]...)))
		}
	}
	// a source that fails in the middle of a valid file: every early position, then a sample
	{
		e := mkExchange(r, sxgVersions[r.Intn(3)], exOpts{contentType: true, payloadLen: 300, uri: "https://example.com/index.html"})
		s := signExchange(e, sxgKeys[0], 64, baseDate, baseDate+100, "https://cert.example.org/c", "https://example.com/v")
		var bb bytes.Buffer
		rb := randBundle(r, bverList()[r.Intn(2)], 3)
		if _, err := rb.WriteTo(&bb); err != nil {
			bb.Reset()
		}
		arts := map[string][]byte{"bundle": bb.Bytes()}
		if s.ok {
			arts["sxg"] = writeFile(e)
			arts["cc"] = s.chain
		}
		for _, kind := range []string{"bundle", "cc", "sxg"} {
			f := arts[kind]
			for p := 0; p < len(f); p++ {
				if p < 120 || p%37 == 0 || p >= len(f)-3 {
					cs = append(cs, Case{"read_fault", []Sx{Sym(kind), B(f), Zi(int64(p))}})
				}
			}
		}
	}
	// MI: record size at / above the limit with almost no data; many tiny records
	_, dg := miEncodeRef(1, 16, []byte("x"))
	for _, rs := range []uint64{1, 16384, 16385, 1 << 32, 1<<64 - 1} {
		hdr := make([]byte, 8)
		binary.BigEndian.PutUint64(hdr, rs)
		mem("mi_dec", B(append(hdr, r.Bytes(40)...)), B([]byte(dg)))
	}
	big := r.Bytes(200000)
	st, dg2 := miEncodeRef(1, 1, big[:20000])
	mem("mi_dec", B(st), B([]byte(dg2)))
	// structured headers: long inputs of every token kind
	for _, s := range []string{string(bytes.Repeat([]byte("a;b=1,"), 20000)), string(bytes.Repeat([]byte("\"x\\\"\";"), 20000)), "*" + string(bytes.Repeat([]byte("AAAA"), 50000)) + "*",
		string(bytes.Repeat([]byte("9"), 100000)), string(bytes.Repeat([]byte(" "), 100000)), "a" + string(bytes.Repeat([]byte(";k"), 50000))} {
		mem("sh_parse", B([]byte(s)))
	}
	// bundles: counts and lengths far beyond the file; a large valid bundle
	base := &bb{ver: bver.VersionB2}
	item := respItem("200", [][2]string{{"content-type", "text/plain"}}, r.Bytes(1000))
	base.items = [][]byte{item}
	base.entries = []bbEntry{{url: "https://example.com/a", locs: [][2]uint64{{1, uint64(len(item))}}}}
	mem("bundle_read", B(base.build()))
	for _, v := range huge {
		c := *base
		c.indexCount = u64p(v)
		mem("bundle_read", B(c.build()))
		c = *base
		c.respCount = u64p(v)
		mem("bundle_read", B(c.build()))
		c = *base
		c.tableCount = u64p(v)
		mem("bundle_read", B(c.build()))
		c = *base
		c.declOverride = map[string]uint64{"responses": v}
		mem("bundle_read", B(c.build()))
		c = *base
		c.entries = []bbEntry{{url: "https://example.com/a", locs: [][2]uint64{{1, v}}}}
		mem("bundle_read", B(c.build()))
		c = *base
		c.extra = []bbSection{{name: "signatures", body: append([]byte{0x82}, append(headBytes(0x80, 8, v), 0x80)...)}}
		mem("bundle_read", B(c.build()))
	}
	{ // many distinct URLs, each with its own small response: linear
		c := &bb{ver: bver.VersionB2}
		off := uint64(len(canonHead(0x80, 2000)))
		for i := 0; i < 2000; i++ {
			it := respItem("200", nil, r.Bytes(50))
			c.items = append(c.items, it)
			c.entries = append(c.entries, bbEntry{url: fmt.Sprintf("https://example.com/%d", i), locs: [][2]uint64{{off, uint64(len(it))}}})
			off += uint64(len(it))
		}
		mem("bundle_read", B(c.build()))
	}
	{ // KNOWN FINDING: many index entries sharing one large response
		c := &bb{ver: bver.VersionB2}
		it := respItem("200", nil, r.Bytes(300000))
		c.items = [][]byte{it}
		for i := 0; i < 400; i++ {
			c.entries = append(c.entries, bbEntry{url: fmt.Sprintf("https://example.com/dup%d", i), locs: [][2]uint64{{1, uint64(len(it))}}})
		}
		cs = append(cs, Case{"mem", []Sx{Sym("bundle_read"), B(c.build()), Sym("shared_location")}})
	}
	// integrity-block detection on short / odd files
	for _, n := range []int{0, 1, 2, 9, 10, 11, 100} {
		f := r.Bytes(n)
		mem("ib_detect", B(f))
	}
	return cs
}

func init() {
	regOp("mem", opMem)
	regOp("read_fault", func(a []Sx) Sx {
		src := io.MultiReader(bytes.NewReader(a[1].B[:a[2].Int()]), iotest.ErrReader(errors.New("injected read fault")))
		var err error
		switch {
		case a[0].IsSym("sxg"):
			_, err = sxg.ReadExchange(src)
		case a[0].IsSym("cc"):
			_, err = certurl.ReadCertChain(src)
		case a[0].IsSym("bundle"):
			_, err = bundle.Read(src)
		default:
			panic("bad kind")
		}
		if err != nil {
			return ErrV()
		}
		return L(Sym("ok"))
	})
	regGen("C10", genC10)
}
