package main

import (
	"bytes"
	"crypto/ecdsa"
	"crypto/ed25519"
	"crypto/elliptic"
	"crypto/rand"
	"crypto/x509"
	"crypto/x509/pkix"
	"fmt"
	"math"
	"math/big"
	"net/http"
	"strings"
	"sync"
	"time"

	sxg "github.com/WICG/webpackage/go/signedexchange"
	"github.com/WICG/webpackage/go/signedexchange/certurl"
	sh "github.com/WICG/webpackage/go/signedexchange/structuredheader"
	"github.com/WICG/webpackage/go/signedexchange/version"
)

type keyMat struct {
	priv interface{}
	der  []byte
	cert *x509.Certificate
	kid  int
}

func newCert(pub, priv interface{}, cn string, pad int) []byte {
	tmpl := &x509.Certificate{
		SerialNumber: big.NewInt(int64(len(cn) + pad + 7)),
		Subject:      pkix.Name{CommonName: cn, Organization: []string{strings.Repeat("o", pad)}},
		NotBefore:    time.Unix(1500000000, 0),
		NotAfter:     time.Unix(1900000000, 0),
		DNSNames:     []string{cn},
	}
	der, err := x509.CreateCertificate(rand.Reader, tmpl, tmpl, pub, priv)
	if err != nil {
		panic(err)
	}
	return der
}

func newECKey(curve elliptic.Curve, cn string, kid int, pad int) keyMat {
	priv, err := ecdsa.GenerateKey(curve, rand.Reader)
	if err != nil {
		panic(err)
	}
	der := newCert(&priv.PublicKey, priv, cn, pad)
	cert, _ := x509.ParseCertificate(der)
	return keyMat{priv, der, cert, kid}
}

func newEdKey(cn string) keyMat {
	pub, priv, _ := ed25519.GenerateKey(rand.Reader)
	der := newCert(pub, priv, cn, 0)
	cert, _ := x509.ParseCertificate(der)
	return keyMat{priv, der, cert, -1}
}

var sxgVersions = []version.Version{version.Version1b1, version.Version1b2, version.Version1b3}

func randCase(r *Rng, s string) string {
	b := []byte(s)
	for i := range b {
		if r.Bool() {
			if b[i] >= 'a' && b[i] <= 'z' {
				b[i] -= 32
			} else if b[i] >= 'A' && b[i] <= 'Z' {
				b[i] += 32
			}
		}
	}
	return string(b)
}

var harmlessHeaders = []string{"Content-Type", "Content-Length", "X-Foo", "Accept", "Vary", "ETag", "Link", "X-a.b_c", "Date", "Server", "Age", "Foo-Bar-Baz", "X-Zone", "Zz-Top", "X-AZaz09"}

func alnumBytes(r *Rng, n int) []byte {
	b := make([]byte, n)
	for i := range b {
		b[i] = "abcdefghijklmnopqrstuvwxyz0123456789"[r.Intn(36)]
	}
	return b
}

func randHost(r *Rng) string {
	return []string{"example.com", "a.test", "www.example.org", "sub.domain.example"}[r.Intn(4)]
}

func randURL(r *Rng) string {
	u := "https://" + randHost(r)
	if r.Chance(1, 5) {
		u += fmt.Sprintf(":%d", []int{443, 8443, 80}[r.Intn(3)])
	}
	u += []string{"/", "/index.html", "/a/b/c.js", "/p%20q/x", "/~u/", "/a;b"}[r.Intn(6)]
	if r.Chance(1, 3) {
		u += []string{"?q=1", "?a=b&c=d", "?"}[r.Intn(3)]
	}
	return u
}

type exOpts struct {
	contentType bool
	extraResp   [][2]string
	extraReq    [][2]string
	method      string
	status      int
	uri         string
	payloadLen  int
}

func mkExchange(r *Rng, ver version.Version, o exOpts) *sxg.Exchange {
	reqh := http.Header{}
	resph := http.Header{}
	if o.contentType {
		resph.Add(randCase(r, "content-type"), "text/html; charset=utf-8")
	}
	for _, kv := range o.extraResp {
		if strings.HasPrefix(kv[0], "raw:") { // verbatim map key
			resph[kv[0][4:]] = append(resph[kv[0][4:]], kv[1])
		} else {
			resph.Add(kv[0], kv[1])
		}
	}
	if ver != version.Version1b3 {
		for _, kv := range o.extraReq {
			if strings.HasPrefix(kv[0], "raw:") {
				reqh[kv[0][4:]] = append(reqh[kv[0][4:]], kv[1])
			} else {
				reqh.Add(kv[0], kv[1])
			}
		}
	}
	method := o.method
	if method == "" {
		method = "GET"
	} else if method == "<empty>" { // an exchange whose method really is the empty string
		method = ""
	}
	status := o.status
	if status == 0 {
		status = 200
	}
	uri := o.uri
	if uri == "" {
		uri = randURL(r)
	}
	return sxg.NewExchange(ver, uri, method, reqh, status, resph, r.Bytes(o.payloadLen))
}

func randExtra(r *Rng, n int) [][2]string {
	out := [][2]string{}
	for i := 0; i < n; i++ {
		name := randCase(r, harmlessHeaders[1+r.Intn(len(harmlessHeaders)-1)])
		vlen := []int{0, 1, 5, 22, 23, 24, 30, 255, 256}[r.Intn(9)]
		v := asciiBytes(r, vlen)
		if vlen > 0 && r.Chance(1, 6) { // the edges of the 7-bit range: DEL and control characters
			v[r.Intn(vlen)] = []byte{0x7f, 0x7f, 0x00, 0x09, 0x1f, 0x7e}[r.Intn(6)]
		}
		out = append(out, [2]string{name, string(v)})
	}
	return out
}

type signedEx struct {
	e        *sxg.Exchange
	key      keyMat
	chain    []byte
	certURL  string
	validity string
	date     int64
	expires  int64
	msg      []byte
	sig      []byte
	ok       bool
}

func chainBytes(ders [][]byte) []byte {
	certs := []*x509.Certificate{}
	for _, d := range ders {
		c, err := x509.ParseCertificate(d)
		if err != nil {
			c = &x509.Certificate{Raw: d}
		}
		certs = append(certs, c)
	}
	cc, err := certurl.NewCertChain(certs, []byte("ocsp-dummy"), nil)
	if err != nil {
		panic(err)
	}
	var buf bytes.Buffer
	if err := cc.Write(&buf); err != nil {
		panic(err)
	}
	return buf.Bytes()
}

// signExchange runs the library's own MI-encode + sign steps; any failure or
// panic is reported through ok=false (the case is then not emitted).
func signExchange(e *sxg.Exchange, key keyMat, rs int, date, expires int64, certURL, validity string) (s signedEx) {
	return signExchangeOpt(e, key, rs, true, date, expires, certURL, validity)
}

// signExchangeOpt with encode=false signs the exchange as it is (payload and digest header prepared by the caller)
func signExchangeOpt(e *sxg.Exchange, key keyMat, rs int, encode bool, date, expires int64, certURL, validity string) (s signedEx) {
	s = signedEx{e: e, key: key, certURL: certURL, validity: validity, date: date, expires: expires}
	defer func() {
		if rec := recover(); rec != nil {
			s.ok = false
		}
	}()
	if encode {
		if err := e.MiEncodePayload(rs); err != nil {
			return
		}
	}
	signer := &sxg.Signer{Date: time.Unix(date, 0), Expires: time.Unix(expires, 0), Certs: []*x509.Certificate{key.cert},
		CertUrl: mustURL(certURL), ValidityUrl: mustURL(validity), PrivKey: key.priv}
	if err := e.AddSignatureHeader(signer); err != nil {
		return
	}
	var mb bytes.Buffer
	if err := e.DumpSignedMessage(&mb, signer); err != nil {
		return
	}
	s.msg = mb.Bytes()
	pl, err := sh.ParseParameterisedList(e.SignatureHeaderValue)
	if err != nil || len(pl) != 1 {
		return
	}
	sig, ok := pl[0].Params["sig"].([]byte)
	if !ok {
		return
	}
	s.sig = sig
	s.chain = chainBytes([][]byte{key.der})
	s.ok = true
	return
}

// the oracle table lists a (key, message, signature) triple only when the
// standard library's ECDSA accepts it
func (s signedEx) sigTab() Sx {
	if !ecdsaOK(s.key, s.msg, s.sig) {
		return L()
	}
	return L(L(Zi(int64(s.key.kid)), B(s.msg), B(s.sig)))
}

func x509Tab(keys ...keyMat) Sx {
	out := []Sx{}
	for _, k := range keys {
		out = append(out, L(B(k.der), Zi(int64(k.kid))))
	}
	return L(out...)
}

func statusKnown(code int) Sx { return Bool(http.StatusText(code) != "") }

func statusTab() Sx {
	out := []Sx{}
	for c := 0; c < 1000; c++ {
		if http.StatusText(c) != "" {
			out = append(out, L(Zi(int64(c)), Zi(1)))
		}
	}
	return L(out...)
}

var verifyCount int

func verifyCase(s signedEx, e *sxg.Exchange, tsec, tnsec int64, fetch Sx, xt Sx, st Sx) Case {
	verifyCount++
	if verifyCount%12 == 0 { // the verdict in memory and after Write / ReadExchange
		return Case{"sxg_verdict_roundtrip", []Sx{exchangeInSx(e), Zi(tsec), Zi(tnsec), statusKnown(e.ResponseStatus), fetch, xt, st}}
	}
	return Case{"sxg_verify", []Sx{exchangeInSx(e), Zi(tsec), Zi(tnsec), statusKnown(e.ResponseStatus), fetch, xt, st}}
}

var readVerifyCount int

func readVerifyCase(file []byte, tsec, tnsec int64, fetch Sx, xt Sx, st Sx) Case {
	readVerifyCount++
	if readVerifyCount%8 == 0 { // verify twice, then write the exchange out again
		return Case{"sxg_read_verify_history", []Sx{B(file), Zi(tsec), Zi(tnsec), statusTab(), fetch, xt, st}}
	}
	return Case{"sxg_read_verify", []Sx{B(file), Zi(tsec), Zi(tnsec), statusTab(), fetch, xt, st}}
}

func fetchTab(url string, chain []byte) Sx { return L(L(B([]byte(url)), B(chain))) }

func writeFile(e *sxg.Exchange) []byte {
	var buf bytes.Buffer
	if err := e.Write(&buf); err != nil {
		return nil
	}
	return buf.Bytes()
}

func cloneExchange(e *sxg.Exchange) *sxg.Exchange {
	c := *e
	c.RequestHeaders = e.RequestHeaders.Clone()
	c.ResponseHeaders = e.ResponseHeaders.Clone()
	if c.RequestHeaders == nil {
		c.RequestHeaders = http.Header{}
	}
	c.Payload = append([]byte{}, e.Payload...)
	return &c
}

var sxgKeys []keyMat
var sxgEdKey keyMat

var sxgKeysOnce sync.Once

func keysOnce() {
	sxgKeysOnce.Do(func() {
		sxgKeys = []keyMat{newECKey(elliptic.P256(), "example.com", 0, 0), newECKey(elliptic.P384(), "example.com", 1, 0), newECKey(elliptic.P256(), "evil.test", 2, 40)}
		sxgEdKey = newEdKey("example.com")
	})
}

const baseDate = int64(1600000000)

// ---------------------------------------------------------------- C08
func genC08(r *Rng, tier string) []Case {
	cs := []Case{}
	// the partial URL model against net/url
	urls := []string{"https://example.com/", "https://example.com", "http://example.com/", "HTTPS://Example.COM/x", "https://example.com:443/x",
		"https://example.com:/x", "https://example.com:8a/x", "https:/foo", "https:foo", "https:", "ftp://h/%zz", "https://h/%zz", "https://h/%41",
		"https://h/a?%zz", "://x", ":x", "1x://h/", "a1+.-://h/", "ht tp://h", "https://h/\x7f", "https://h/\n", "", "/rel", "rel", "//h/x", "data:text/plain,hi",
		"https://u@h/", "https://[::1]/", "https://h/#f", "https://h/#%zz", "https://h_x.~y/", "https://h/ /", "https://h\\x/", "https://h/%", "https://h/%4", "cert.example.org", "https://a.b/c?d#e"}
	for _, u := range urls {
		cs = append(cs, Case{"url", []Sx{B([]byte(u))}})
	}
	for i := 0; i < 300; i++ {
		u := []byte(randURL(r))
		if r.Bool() {
			alt := []byte(":/?#%@[] ~\x00\x7fAz09.-+")
			u[r.Intn(len(u))] = alt[r.Intn(len(alt))]
		}
		cs = append(cs, Case{"url", []Sx{B(u)}})
	}
	// big-endian length fields at their boundaries
	for _, size := range []int64{1, 2, 3, 4, 7, 8} {
		for _, n := range []int64{-1, 0, 1, 255, 256, 65535, 65536, 65537, 1<<24 - 1, 1 << 24, 1<<24 + 1, 1<<32 - 1, 1 << 32, 1<<56 - 1, 1 << 56, math.MaxInt64, math.MinInt64} {
			cs = append(cs, Case{"bigendian", []Sx{Zi(n), Zi(size)}})
		}
	}
	n := 250
	if tier == "thorough" {
		n = 6000
	}
	longv := string(asciiBytes(r, 70000))
	longu := string(alnumBytes(r, 70000))
	for i := 0; i < n; i++ {
		ver := sxgVersions[r.Intn(3)]
		o := exOpts{contentType: r.Chance(4, 5), extraResp: randExtra(r, r.Intn(5)), extraReq: randExtra(r, r.Intn(3)),
			status: []int{200, 200, 404, 301, 99, 1000, 0, 599}[r.Intn(8)], payloadLen: r.Intn(40)}
		if r.Chance(1, 10) {
			o.method = []string{"HEAD", "POST", "<empty>", "get", "PATCH"}[r.Intn(5)]
		}
		if r.Chance(1, 25) { // header values / names across CBOR length classes
			o.extraResp = append(o.extraResp, [2]string{"X-Long", longv[:[]int{255, 256, 65535, 65536, 65537}[r.Intn(5)]]})
		}
		if r.Chance(1, 15) { // multi-valued
			o.extraResp = append(o.extraResp, [2]string{"Vary", "a"}, [2]string{"vary", "b"}, [2]string{"VARY", ""})
		}
		if r.Chance(1, 30) {
			o.extraResp = append(o.extraResp, [2]string{":status", "500"})
		}
		if r.Chance(1, 12) { // two map keys that differ only in letter case (a caller-built map): one CBOR key twice
			o.extraResp = append(o.extraResp, [2]string{"X-Variant", "alpha"}, [2]string{"raw:x-variant", "beta"})
		}
		if r.Chance(1, 20) {
			o.extraReq = append(o.extraReq, [2]string{"Accept", "a"}, [2]string{"raw:ACCEPT", "b"})
		}
		e := mkExchange(r, ver, o)
		ex := exchangeInSx(e)
		cs = append(cs, Case{"sxg_headers", []Sx{ex}})
		cs = append(cs, Case{"sxg_header_integrity", []Sx{ex}})
		certs := []Sx{}
		for j := r.Intn(3); j > 0; j-- {
			certs = append(certs, B(r.Bytes(1+r.Intn(60))))
		}
		validity := "https://" + randHost(r) + "/validity"
		if r.Chance(1, 10) {
			validity = "https://example.com/" + longu[:[]int{255, 256, 65535, 65536}[r.Intn(4)]]
		}
		if r.Chance(1, 10) { // fragment, query, odd escapes: the string is signed and announced as it is
			if v2 := validity + []string{"#frag", "?q=1#f", "?", "/%7Ex", "?a=%zz"}[r.Intn(5)]; stableURL(v2) { // (url.Parse + String() drops an empty fragment)
				validity = v2
			}
		}
		date := baseDate + int64(r.Intn(1000))
		expires := date + int64(r.Intn(700000))
		if r.Chance(1, 8) {
			date = []int64{0, -1, -75, math.MaxInt64, math.MinInt64, 1<<32 - 1, 1 << 32, 1<<31 - 1, 1 << 31, 1<<31 + 5, 2208988800, 1<<16 - 1, 1 << 16, 255, 256, 23, 24}[r.Intn(17)]
		}
		if r.Chance(1, 8) {
			expires = []int64{0, -1, math.MaxInt64, 1 << 32, 1<<31 - 1, 1 << 31, 1<<32 - 1, 2208988800}[r.Intn(8)]
		}
		cs = append(cs, Case{"sxg_signed_message", []Sx{ex, L(certs...), B([]byte(validity)), Zi(date), Zi(expires)}})
		certURL := []string{"https://cert.example.org/cert.cbor", "data:application/cert-chain+cbor;base64,AAAA", "http://cert.example.org/c", "https://example.com/c?x=1"}[r.Intn(4)]
		cs = append(cs, Case{"sxg_sigheader", []Sx{ex, L(certs...), B([]byte(certURL)), B([]byte(validity)), Zi(date), Zi(expires)}})
		e.SignatureHeaderValue = "label;sig=*AA==*"
		cs = append(cs, Case{"sxg_write", []Sx{exchangeInSx(e)}})
		// histories on ONE exchange object: observe, edit, observe again
		if i%3 == 0 {
			acts := []Sx{L(Sym("integrity")), L(Sym("headers")), L(Sym("addresp"), B([]byte("X-Edited")), B([]byte("1"))), L(Sym("integrity")), L(Sym("headers")), L(Sym("write")),
				L(Sym("status"), Zi(404)), L(Sym("integrity")), L(Sym("write")), L(Sym("miencode"), Zi(16)), L(Sym("integrity")), L(Sym("write")), L(Sym("payload"), B([]byte("zz"))), L(Sym("write")), L(Sym("integrity"))}
			if ver != version.Version1b3 {
				acts = append(acts, L(Sym("addreq"), B([]byte("Accept")), B([]byte("x"))), L(Sym("integrity")), L(Sym("method"), B([]byte("HEAD"))), L(Sym("headers")))
			}
			cs = append(cs, Case{"sxg_history", []Sx{ex, L(acts...)}})
		}
		// MiEncodePayload on a response that already carries the digest field (empty value, or
		// from an earlier call): it must refuse rather than produce an unverifiable exchange
		if i%3 == 1 {
			dn := "Digest"
			if ver != version.Version1b3 {
				dn = "MI-Draft2"
			}
			acts := []Sx{L(Sym("miencode"), Zi(16)), L(Sym("headers")), L(Sym("miencode"), Zi(16)), L(Sym("headers")), L(Sym("write"))}
			if r.Chance(1, 3) { // a refused call (record size 0 / negative) first: it must leave the exchange as it was
				acts = append([]Sx{L(Sym("miencode"), Zi(int64([]int{0, -1, -16}[r.Intn(3)]))), L(Sym("write")), L(Sym("headers"))}, acts...)
			}
			if r.Bool() {
				acts = append([]Sx{L(Sym("addresp"), B([]byte(dn)), B([]byte([]string{"", "x"}[r.Intn(2)])))}, acts...)
			}
			cs = append(cs, Case{"sxg_history", []Sx{ex, L(acts...)}})
		}
	}
	return cs
}

// ---------------------------------------------------------------- C02
func genC02(r *Rng, tier string) []Case {
	keysOnce()
	cs := []Case{}
	n := 60
	if tier == "thorough" {
		n = 1500
	}
	rsList := []int{1, 2, 15, 16, 17, 100, 4096, 16383, 16384}
	for i := 0; i < n; i++ {
		ver := sxgVersions[i%3]
		key := sxgKeys[r.Intn(2)]
		rs := rsList[r.Intn(len(rsList))]
		var plen int
		switch r.Intn(6) {
		case 0:
			plen = 0
		case 1:
			plen = 1
		case 2:
			plen = rs*(1+r.Intn(3)) - 1
		case 3:
			plen = rs * (1 + r.Intn(3))
		case 4:
			plen = rs*(1+r.Intn(3)) + 1
		default:
			plen = r.Intn(200)
		}
		if rs >= 4096 && tier == "quick" && r.Chance(2, 3) {
			plen = r.Intn(100)
		}
		if plen > 40000 {
			plen = 40000
		}
		o := exOpts{contentType: true, extraResp: randExtra(r, r.Intn(4)), extraReq: randExtra(r, r.Intn(2)), payloadLen: plen}
		if r.Chance(1, 4) {
			o.extraResp = append(o.extraResp, [2]string{"Cache-Control", "max-age=100"}, [2]string{randCase(r, "cache-control"), []string{"public", "no-store", "private", "S-MaxAge=5"}[r.Intn(4)]})
		}
		e := mkExchange(r, ver, o)
		orig := cloneExchange(e)
		cs = append(cs, Case{"sxg_mi_encode", []Sx{exchangeInSx(orig), Zi(int64(rs))}})
		date := baseDate + int64(r.Intn(100000))
		expires := date + int64([]int{1, 3600, 604800, 604799}[r.Intn(4)])
		host := strings.SplitN(strings.TrimPrefix(e.RequestURI, "https://"), "/", 2)[0]
		certURL := "https://cert.example.org/cert.cbor"
		s := signExchange(e, key, rs, date, expires, certURL, "https://"+host+"/validity.msg")
		if !s.ok {
			continue
		}
		ft, xt, st := fetchTab(certURL, s.chain), x509Tab(sxgKeys...), s.sigTab()
		cs = append(cs, Case{"sxg_write", []Sx{exchangeInSx(e)}})
		file := writeFile(e)
		if file == nil {
			continue
		}
		cs = append(cs, Case{"sxg_read", []Sx{B(file)}})
		for _, t := range [][2]int64{{date, 0}, {(date + expires) / 2, 500}, {expires, 0}, {expires, 1}, {date - 1, 999999999}} {
			cs = append(cs, verifyCase(s, e, t[0], t[1], ft, xt, st))
			cs = append(cs, readVerifyCase(file, t[0], t[1], ft, xt, st))
		}
		// a b3 exchange carrying request headers in memory (the format has no place for them)
		if ver == version.Version1b3 && i%2 == 0 {
			c := cloneExchange(e)
			c.RequestHeaders = http.Header{}
			c.RequestHeaders.Set([]string{"Accept", "Authorization", "Cookie", "X-Trace"}[(i/6)%4], "Basic eDp5")
			cs = append(cs, Case{"sxg_verdict_roundtrip", []Sx{exchangeInSx(c), Zi(date), Zi(0), statusKnown(c.ResponseStatus), ft, xt, st}})
		}
	}
	for i := 0; i < 6; i++ { // one Signer, re-keyed between signatures
		cs = append(cs, Case{"sxg_signer_rekey", []Sx{Zi(int64(i)), Zi(int64(i / 2))}})
	}
	for i := 0; i < 3; i++ { // ... and given a renewed certificate for the same key
		cs = append(cs, Case{"sxg_signer_rekey", []Sx{Zi(int64(i)), Zi(int64(6 + i))}})
	}
	// request URIs that ReadExchange refuses (Write must refuse them too) and odd-looking https URLs
	for _, ver := range sxgVersions {
		for _, uri := range []string{"http://example.com/", "/x", "", "x", "mailto:a@example.com", "ftp://example.com/f", "HTTPS://EXAMPLE.com/Up", "https:/x", "https:opaque",
			"https://example.com/%zz", "https://example.com/a b", "https://example.com/\x7f", "://missing", "1https://example.com/", "https://example.com:8443/p?q#frag"} {
			e := mkExchange(r, ver, exOpts{contentType: true, uri: uri, payloadLen: 3})
			e.SignatureHeaderValue = "label;sig=*AA==*"
			cs = append(cs, Case{"sxg_write", []Sx{exchangeInSx(e)}})
			if f := writeFile(e); f != nil {
				cs = append(cs, Case{"sxg_read", []Sx{B(f)}})
			}
		}
		if ver == version.Version1b2 {
			for _, k := range []string{":url", ":URL", ":Url", ":urls", "url"} {
				e := mkExchange(r, ver, exOpts{contentType: true, payloadLen: 3, extraReq: [][2]string{{"raw:" + k, "https://evil.example/"}}})
				e.SignatureHeaderValue = "label;sig=*AA==*"
				cs = append(cs, Case{"sxg_write", []Sx{exchangeInSx(e)}})
			}
		}
	}
	// files no writer produces: a request-map key patched into ":url" / ":method" after writing (b1: a second
	// :url; b2: the deprecated key), and the same for an upper-case key
	for _, ver := range []version.Version{version.Version1b1, version.Version1b2} {
		for _, patch := range [][2]string{{"xurl", ":url"}, {"xmethod", ":method"}, {"xurl", "xUrl"}, {"xurl", ":urL"}} {
			for _, val := range []string{"https://evil.example/", "http://example.com/", "https://example.com/#f", "GET"} {
				e := mkExchange(r, ver, exOpts{contentType: true, payloadLen: 3, extraReq: [][2]string{{"raw:" + patch[0], val}}})
				e.SignatureHeaderValue = "label;sig=*AA==*"
				f := writeFile(e)
				if f == nil {
					continue
				}
				from := append([]byte{byte(0x40 + len(patch[0]))}, patch[0]...)
				to := append([]byte{byte(0x40 + len(patch[1]))}, patch[1]...)
				if bytes.Count(f, from) == 1 {
					cs = append(cs, Case{"sxg_read", []Sx{B(bytes.Replace(f, from, to, 1))}})
				}
			}
		}
	}
	// length-field boundaries and limits (no real signature needed)
	long := alnumBytes(r, 600000)
	for _, ver := range sxgVersions {
		for _, ulen := range []int{65535 - 20, 65535, 65536, 65537} {
			uri := "https://example.com/" + string(long[:ulen-20])
			e := mkExchange(r, ver, exOpts{contentType: true, uri: uri, payloadLen: 3})
			e.SignatureHeaderValue = "label;sig=*AA==*"
			cs = append(cs, Case{"sxg_write", []Sx{exchangeInSx(e)}})
			if f := writeFile(e); f != nil {
				cs = append(cs, Case{"sxg_read", []Sx{B(f)}})
			}
		}
		for _, slen := range []int{16383, 16384, 16385, 70000} {
			e := mkExchange(r, ver, exOpts{contentType: true, payloadLen: 3})
			e.SignatureHeaderValue = "l;a=\"" + string(long[:slen-6]) + "\""
			cs = append(cs, Case{"sxg_write", []Sx{exchangeInSx(e)}})
			if f := writeFile(e); f != nil {
				cs = append(cs, Case{"sxg_read", []Sx{B(f)}})
			}
		}
		for _, hlen := range []int{524288 - 1, 524288, 524288 + 1} {
			// find the header-block size without the filler, then pad exactly
			e0 := mkExchange(r, ver, exOpts{contentType: true, uri: "https://example.com/", payloadLen: 3, extraResp: [][2]string{{"X-Fill", ""}}})
			var hb bytes.Buffer
			e0.DumpExchangeHeaders(&hb)
			fill := hlen - hb.Len() - 4 // head grows from 1 to 5 bytes
			e := mkExchange(r, ver, exOpts{contentType: true, uri: "https://example.com/", payloadLen: 3, extraResp: [][2]string{{"X-Fill", string(long[:fill])}}})
			e.SignatureHeaderValue = "label;sig=*AA==*"
			cs = append(cs, Case{"sxg_write", []Sx{exchangeInSx(e)}})
			if f := writeFile(e); f != nil {
				cs = append(cs, Case{"sxg_read", []Sx{B(f)}})
			}
		}
	}
	return cs
}

// ---------------------------------------------------------------- C01
func genC01(r *Rng, tier string) []Case {
	keysOnce()
	cs := []Case{}
	nb := 2
	if tier == "thorough" {
		nb = 12
	}
	for i := 0; i < 3*nb; i++ {
		ver := sxgVersions[i%3]
		key := sxgKeys[(i/3)%2]
		foreign := sxgKeys[2]
		rs := []int{1, 16, 17, 4096}[r.Intn(4)]
		plen := []int{0, 1, 16, 33, 40}[r.Intn(5)]
		o := exOpts{contentType: true, extraResp: randExtra(r, 1+r.Intn(2)), extraReq: randExtra(r, r.Intn(2)), payloadLen: plen, uri: "https://example.com/index.html"}
		e := mkExchange(r, ver, o)
		date := baseDate + int64(r.Intn(100000))
		expires := date + 3600
		certURL := "https://cert.example.org/cert.cbor"
		s := signExchange(e, key, rs, date, expires, certURL, "https://example.com/validity.msg")
		if !s.ok {
			continue
		}
		ft, xt, st := fetchTab(certURL, s.chain), x509Tab(append(sxgKeys, sxgEdKey)...), s.sigTab()
		t := date + 10
		emit := func(m *sxg.Exchange, fetch Sx) {
			cs = append(cs, verifyCase(s, m, t, 0, fetch, xt, st))
			if f := writeFile(m); f != nil && r.Chance(1, 2) {
				cs = append(cs, readVerifyCase(f, t, 0, fetch, xt, st))
			}
		}
		emit(e, ft)
		// semantic field edits of the in-memory exchange
		mut := func(f func(m *sxg.Exchange)) {
			m := cloneExchange(e)
			f(m)
			emit(m, ft)
		}
		mut(func(m *sxg.Exchange) { m.RequestURI = "https://example.com/index.htmk" })
		mut(func(m *sxg.Exchange) { m.RequestURI = "https://example.com/" })
		mut(func(m *sxg.Exchange) { m.RequestMethod = "HEAD" })
		mut(func(m *sxg.Exchange) { m.ResponseStatus = 201 })
		mut(func(m *sxg.Exchange) { m.ResponseStatus = 404 })
		mut(func(m *sxg.Exchange) { m.ResponseHeaders.Add("X-Injected", "1") })
		mut(func(m *sxg.Exchange) { m.ResponseHeaders.Set("Content-Type", "text/plain") })
		mut(func(m *sxg.Exchange) { m.ResponseHeaders.Add("Content-Type", "") })
		mut(func(m *sxg.Exchange) { m.ResponseHeaders.Del("Content-Encoding") })
		mut(func(m *sxg.Exchange) { m.RequestHeaders.Add("Accept", "*/*") })
		mut(func(m *sxg.Exchange) { // same logical headers, different in-memory split: must still verify
			h := http.Header{}
			for k, v := range m.ResponseHeaders {
				h[k] = []string{strings.Join(v, ",")}
			}
			m.ResponseHeaders = h
		})
		for k := range e.ResponseHeaders {
			k := k
			mut(func(m *sxg.Exchange) { m.ResponseHeaders[k] = append([]string{}, append(m.ResponseHeaders[k], "x")...) })
			mut(func(m *sxg.Exchange) { v := m.ResponseHeaders[k][0]; m.ResponseHeaders[k][0] = v + " " })
			mut(func(m *sxg.Exchange) { m.ResponseHeaders.Del(k) })
		}
		// payload: bit flips, truncation, extension
		for j := 0; j < len(e.Payload)*8; j += 1 + r.Intn(5) {
			j := j
			mut(func(m *sxg.Exchange) { m.Payload[j/8] ^= 1 << uint(j%8) })
		}
		for j := 0; j < len(e.Payload); j += 1 + r.Intn(3) {
			j := j
			mut(func(m *sxg.Exchange) { m.Payload = m.Payload[:j] })
		}
		mut(func(m *sxg.Exchange) { m.Payload = append(m.Payload, 0) })
		// Signature header parameter edits
		pl, _ := sh.ParseParameterisedList(e.SignatureHeaderValue)
		setParam := func(name string, v sh.Item, del bool) {
			m := cloneExchange(e)
			pi := sh.ParameterisedIdentifier{Label: pl[0].Label, Params: sh.Parameters{}}
			for k, x := range pl[0].Params {
				pi.Params[k] = x
			}
			if del {
				delete(pi.Params, sh.Key(name))
			} else {
				pi.Params[sh.Key(name)] = v
			}
			str, err := pi.String()
			if err != nil {
				return
			}
			m.SignatureHeaderValue = str
			emit(m, ft)
		}
		for _, name := range []string{"sig", "integrity", "cert-url", "cert-sha256", "validity-url", "date", "expires"} {
			setParam(name, nil, true)
			setParam(name, sh.Token("tok"), false)
			setParam(name, nil, false)
		}
		setParam("date", date+1, false)
		setParam("date", date-1, false)
		setParam("expires", expires+1, false)
		setParam("expires", expires-1, false)
		setParam("expires", date+604801, false)
		for _, life := range []int64{9223372037, 13835058056, 18446744074, 1 << 40, 1<<62 - date} { // products with 10^9 wrap int64
			setParam("expires", date+life, false)
		}
		setParam("date", int64(-75), false)
		setParam("validity-url", "https://example.com/validity.msh", false)
		setParam("validity-url", "https://evil.test/validity.msg", false)
		setParam("integrity", "digest/mi-sha256-02", false)
		setParam("integrity", "mi-draft2", false)
		setParam("integrity", "digest/mi-sha256-03", false)
		csha := pl[0].Params["cert-sha256"].([]byte)
		for j := 0; j < 32; j++ {
			c := append([]byte{}, csha...)
			c[j] ^= 1 << uint(r.Intn(8))
			setParam("cert-sha256", c, false)
		}
		setParam("cert-sha256", csha[:31], false)
		setParam("cert-sha256", append(append([]byte{}, csha...), 0), false)
		sig := pl[0].Params["sig"].([]byte)
		for j := 0; j < len(sig); j += 1 + r.Intn(4) {
			c := append([]byte{}, sig...)
			c[j] ^= 1 << uint(r.Intn(8))
			setParam("sig", c, false)
		}
		setParam("sig", sig[:len(sig)-1], false)
		setParam("sig", append(append([]byte{}, sig...), 0), false)
		// two signatures: an invalid one first, then the valid one; and duplicated label
		m2 := cloneExchange(e)
		m2.SignatureHeaderValue = "bad;sig=*AA==*, " + e.SignatureHeaderValue
		emit(m2, ft)
		m3 := cloneExchange(e)
		m3.SignatureHeaderValue = e.SignatureHeaderValue + ", " + e.SignatureHeaderValue
		emit(m3, ft)
		// one Exchange object verified several times with DIFFERENT certificate fetchers (a good one, a
		// foreign certificate, a failing fetch, the good one again): each verdict depends on its own fetch only
		if file0 := writeFile(e); file0 != nil {
			good, foreignTab, failing := ft, fetchTab(certURL, chainBytes([][]byte{foreign.der})), L(L(B([]byte(certURL)), L(Sym("err"))))
			for _, seq := range [][]Sx{{good, foreignTab, failing, good}, {foreignTab, good, failing}, {failing, good, good, foreignTab}} {
				cs = append(cs, Case{"sxg_read_verify_seq", []Sx{B(file0), Zi(t), Zi(0), statusTab(), L(seq...), xt, st}})
			}
		}
		// certificate substitution: foreign certificate / key, Ed25519 cert, broken chains
		emit(e, fetchTab(certURL, chainBytes([][]byte{foreign.der})))
		emit(e, fetchTab(certURL, chainBytes([][]byte{sxgEdKey.der})))
		emit(e, fetchTab(certURL, chainBytes([][]byte{key.der, foreign.der})))
		emit(e, fetchTab(certURL, chainBytes([][]byte{foreign.der, key.der})))
		emit(e, fetchTab("https://other.example/cert.cbor", s.chain))
		emit(e, L(L(B([]byte(certURL)), L(Sym("err")))))
		for j := 0; j < len(s.chain); j += 1 + r.Intn(40) {
			c := append([]byte{}, s.chain...)
			c[j] ^= 1 << uint(r.Intn(8))
			// keep the x509 table truthful for the mutated DER
			emit2 := func() {
				xt2 := xt
				if cc, err := certurl.ReadCertChain(bytes.NewReader(c)); err == nil && len(cc) > 0 && !bytes.Equal(cc[0].Cert.Raw, key.der) {
					kid := int64(-1)
					if pk, ok := cc[0].Cert.PublicKey.(*ecdsa.PublicKey); ok && pk.Equal(&key.priv.(*ecdsa.PrivateKey).PublicKey) {
						kid = int64(key.kid)
					}
					xt2 = L(append(append([]Sx{}, xt.L...), L(B(cc[0].Cert.Raw), Zi(kid)))...)
				}
				cs = append(cs, verifyCase(s, e, t, 0, fetchTab(certURL, c), xt2, st))
			}
			emit2()
		}
		// verification times
		for _, tt := range [][2]int64{{date - 1, 0}, {date - 1, 999999999}, {date, 0}, {expires, 0}, {expires, 1}, {expires + 1, 0}} {
			cs = append(cs, verifyCase(s, e, tt[0], tt[1], ft, xt, st))
		}
		// serialized file: bit flips, truncation, insertion, deletion
		file := writeFile(e)
		if file == nil {
			continue
		}
		// read the file, edit the PARSED exchange, then verify
		editCase := func(eds ...Sx) {
			cs = append(cs, Case{"sxg_read_edit_verify", []Sx{B(file), L(eds...), Zi(t), Zi(0), statusTab(), ft, xt, st}})
		}
		editCase()
		editCase(L(Sym("status"), Zi(404)))
		for _, add := range []int{1000, 2000, 10000, -1000} { // a status that agrees with the signed one modulo 1000
			editCase(L(Sym("status"), Zi(int64(e.ResponseStatus+add))))
		}
		editCase(L(Sym("status"), Zi(int64(e.ResponseStatus))))
		editCase(L(Sym("addresp"), B([]byte("X-Injected")), B([]byte("1"))))
		editCase(L(Sym("addresp"), B([]byte("Content-Type")), B([]byte("text/evil"))))
		editCase(L(Sym("addreq"), B([]byte("Accept")), B([]byte("*/*"))))
		editCase(L(Sym("method"), B([]byte("HEAD"))))
		editCase(L(Sym("payload"), B(append(append([]byte{}, e.Payload...), 0))))
		if len(e.Payload) > 9 {
			p2 := append([]byte{}, e.Payload...)
			p2[9] ^= 1
			editCase(L(Sym("payload"), B(p2)))
		}
		// a fixed NUMBER of positions per file (the file length varies with header values and with
		// the length of the DER signature, and the run time must not): evenly spread, random phase
		nflip, ncut := 1000, 200
		if tier == "thorough" {
			nflip, ncut = len(file)*8, len(file)
		}
		for k := 0; k < nflip; k++ {
			j := (k*len(file)*8)/nflip + r.Intn(maxInt(1, len(file)*8/nflip))
			if j >= len(file)*8 {
				j = len(file)*8 - 1
			}
			f := append([]byte{}, file...)
			f[j/8] ^= 1 << uint(j%8)
			cs = append(cs, readVerifyCase(f, t, 0, ft, xt, st))
		}
		for j := 0; j < 48 && j < len(file); j++ { // every cut inside the magic, the length fields and the start of the URL
			cs = append(cs, readVerifyCase(file[:j], t, 0, ft, xt, st))
		}
		for k := 0; k < ncut; k++ {
			j := (k*len(file))/ncut + r.Intn(maxInt(1, len(file)/ncut))
			if j >= len(file) {
				j = len(file) - 1
			}
			cs = append(cs, readVerifyCase(file[:j], t, 0, ft, xt, st))
			f := append(append(append([]byte{}, file[:j]...), byte(r.U64())), file[j:]...)
			cs = append(cs, readVerifyCase(f, t, 0, ft, xt, st))
			f2 := append(append([]byte{}, file[:j]...), file[j+1:]...)
			cs = append(cs, readVerifyCase(f2, t, 0, ft, xt, st))
		}
	}
	return cs
}

// ---------------------------------------------------------------- C09
func genC09(r *Rng, tier string) []Case {
	keysOnce()
	cs := []Case{}
	key := sxgKeys[0]
	certURL := "https://cert.example.org/cert.cbor"
	xt := x509Tab(sxgKeys...)
	one := func(ver version.Version, o exOpts, date, expires int64, validity string, ts [][2]int64) {
		if o.uri == "" {
			o.uri = "https://example.com/index.html"
		}
		e := mkExchange(r, ver, o)
		s := signExchange(e, key, 16, date, expires, certURL, validity)
		if !s.ok {
			return
		}
		ft, st := fetchTab(certURL, s.chain), s.sigTab()
		for _, t := range ts {
			cs = append(cs, verifyCase(s, e, t[0], t[1], ft, xt, st))
		}
	}
	d := baseDate
	mid := [][2]int64{{d + 5, 0}}
	def := func() exOpts { return exOpts{contentType: true, payloadLen: 20} }
	// an exchange whose request URL was replaced in memory after signing (never a valid one; several do not parse)
	for _, ver := range sxgVersions {
		e := mkExchange(r, ver, exOpts{contentType: true, payloadLen: 20, uri: "https://example.com/index.html"})
		s := signExchange(e, key, 16, d, d+100, certURL, "https://example.com/v")
		if !s.ok {
			continue
		}
		ft, st := fetchTab(certURL, s.chain), s.sigTab()
		for _, uri := range []string{"https://example.com/%zz", "https://exa mple.com/", ":", "", "https://example.com/\x7f", "https://example.com/other", "http://example.com/index.html", "//example.com/index.html", "https://example.com:bad/"} {
			c := cloneExchange(e)
			c.RequestURI = uri
			cs = append(cs, Case{"sxg_verify", []Sx{exchangeInSx(c), Zi(d + 5), Zi(0), statusKnown(c.ResponseStatus), ft, xt, st}})
		}
	}
	// a Signature header with TWO members: the exchange's own signature, whose window has run out, next to a
	// signature that is live but was made over another exchange - the algorithm runs per signature, none is valid
	for _, ver := range sxgVersions {
		e := mkExchange(r, ver, exOpts{contentType: true, payloadLen: 20, uri: "https://example.com/index.html"})
		s1 := signExchange(e, key, 16, d, d+3600, certURL, "https://example.com/v")
		other := mkExchange(r, ver, exOpts{contentType: true, payloadLen: 25, uri: "https://example.com/index.html"})
		s2 := signExchange(other, key, 16, d+9*86400, d+9*86400+3600, certURL, "https://example.com/v")
		if !s1.ok || !s2.ok {
			continue
		}
		own, foreign := e.SignatureHeaderValue, other.SignatureHeaderValue
		st := L(append(append([]Sx{}, s1.sigTab().L...), s2.sigTab().L...)...)
		ft := fetchTab(certURL, s1.chain)
		for _, hv := range []string{own + ", " + foreign, foreign + ", " + own, own + "," + own, foreign} {
			c := cloneExchange(e)
			c.SignatureHeaderValue = hv
			for _, at := range []int64{d + 10, d + 9*86400 + 10, d + 5*86400} {
				cs = append(cs, Case{"sxg_verify", []Sx{exchangeInSx(c), Zi(at), Zi(0), statusKnown(c.ResponseStatus), ft, xt, st}})
			}
		}
	}
	// the payload protected by the OTHER draft's encoding, its digest header and - the parameter is not covered by the
	// signature - integrity naming that other encoding: consistent, correctly signed, and against the version's rule
	for _, ver := range sxgVersions {
		for _, relabel := range []bool{true, false} {
			other, hdr, ce, ident := 0, "MI-Draft2", "mi-sha256-draft2", "mi-draft2"
			if ver == version.Version1b1 {
				other, hdr, ce, ident = 1, "Digest", "mi-sha256-03", "digest/mi-sha256-03"
			}
			e := mkExchange(r, ver, exOpts{contentType: true, payloadLen: 40, uri: "https://example.com/index.html"})
			stream, dg := miEncodeRef(other, 16, e.Payload)
			e.Payload = stream
			e.ResponseHeaders.Set(hdr, dg)
			e.ResponseHeaders.Set("Content-Encoding", ce)
			s := signExchangeOpt(e, key, 16, false, d, d+100, certURL, "https://example.com/v")
			if !s.ok {
				continue
			}
			if relabel {
				if pl, err := sh.ParseParameterisedList(e.SignatureHeaderValue); err == nil && len(pl) == 1 {
					pl[0].Params["integrity"] = ident
					if str, err := pl.String(); err == nil {
						e.SignatureHeaderValue = str
					}
				}
			}
			cs = append(cs, verifyCase(s, e, d+5, 0, fetchTab(certURL, s.chain), xt, s.sigTab()))
		}
	}
	reps := 1
	if tier == "thorough" {
		reps = 6
	}
	for rep := 0; rep < reps; rep++ {
		for _, ver := range sxgVersions {
			// time grid
			for _, life := range []int64{0, 1, 604799, 604800, 604801, 700000, -1, 9223372037, 13835058056, 18446744074} { // the last three: lifetime x 10^9 wraps int64
				x := d + life
				one(ver, def(), d, x, "https://example.com/v", [][2]int64{{d - 1, 0}, {d - 1, 999999999}, {d, 0}, {d, 1}, {x - 1, 999999999}, {x, 0}, {x, 1}, {x + 1, 0}, {(d + x) / 2, 0}})
			}
			// verification times / windows one wrap of the 64-bit nanosecond clock (2^64 ns = 18446744073 s + 709551616 ns) apart
			{
				const wrapS, wrapNs = 18446744073, 709551616
				one(ver, def(), d, d+100, "https://example.com/v", [][2]int64{{d + 50 + wrapS, wrapNs}, {d + wrapS, wrapNs}, {d + 50 - wrapS - 1, 1000000000 - wrapNs}, {d + 50 + wrapS/2, 0}})
				one(ver, def(), d+wrapS, d+wrapS+100, "https://example.com/v", [][2]int64{{d + 50, 0}, {d + wrapS + 50, 0}})
			}
			// methods and stateful request headers
			for _, m := range []string{"GET", "HEAD", "POST", "get", "PUT", "OPTIONS", "<empty>"} {
				o := def()
				o.method = m
				one(ver, o, d, d+100, "https://example.com/v", mid)
			}
			for _, h := range []string{"authorization", "cookie", "cookie2", "proxy-authorization", "sec-websocket-key", "cookie3", "x-cookie", "accept"} {
				o := def()
				o.extraReq = [][2]string{{randCase(r, h), "v"}, {"Accept", "*/*"}}
				one(ver, o, d, d+100, "https://example.com/v", mid)
				o = def()
				o.extraReq = [][2]string{{"raw:" + []string{h, strings.ToUpper(h), randCase(r, h)}[r.Intn(3)], "v"}}
				one(ver, o, d, d+100, "https://example.com/v", mid)
			}
			// uncached / stateful response headers in random letter case, mixed with harmless ones
			for _, h := range []string{"connection", "keep-alive", "proxy-connection", "trailer", "transfer-encoding", "upgrade",
				"authentication-control", "authentication-info", "clear-site-data", "optional-www-authenticate", "proxy-authenticate",
				"proxy-authentication-info", "public-key-pins", "sec-websocket-accept", "set-cookie", "set-cookie2", "setprofile",
				"strict-transport-security", "www-authenticate", "set-cookie3", "x-set-cookie", "te", "via", "warning"} {
				o := def()
				o.extraResp = append(randExtra(r, r.Intn(3)), [2]string{randCase(r, h), "v"})
				one(ver, o, d, d+100, "https://example.com/v", mid)
				o = def() // ... present with an empty value
				o.extraResp = append(randExtra(r, r.Intn(2)), [2]string{randCase(r, h), ""})
				one(ver, o, d, d+100, "https://example.com/v", mid)
				o = def()
				o.extraResp = [][2]string{{"raw:" + []string{h, strings.ToUpper(h), randCase(r, h)}[r.Intn(3)], "v"}}
				one(ver, o, d, d+100, "https://example.com/v", mid)
			}
			// Content-Type presence
			for _, ct := range []bool{true, false} {
				o := def()
				o.contentType = ct
				one(ver, o, d, d+100, "https://example.com/v", mid)
			}
			o := def()
			o.contentType = false
			o.extraResp = [][2]string{{"Content-Type", ""}}
			one(ver, o, d, d+100, "https://example.com/v", mid)
			// validity URL origin variants
			for _, v := range []string{"https://example.com/v", "https://example.com:443/v", "https://example.com:8443/v", "http://example.com/v",
				"https://www.example.com/v", "https://example.org/v", "https://EXAMPLE.com/v", "https://example.com", "https://example.com./v", "https:/v",
				"https://example.com/v#frag", "https://example.com/v?q=1#f", "/v", "v", "//example.com/v", "?q", "", "./v", "//example.com:443/v", "https://example.com.evil.test/v", "https://example.co/v", "https://example.com:84/v"} {
				one(ver, def(), d, d+100, v, mid)
			}
			o2 := def()
			o2.uri = "https://example.com:443/index.html"
			one(ver, o2, d, d+100, "https://example.com:443/v", mid)
			one(ver, o2, d, d+100, "https://example.com/v", mid)
		}
		// b3 cacheability: Cache-Control directive subsets x Expires x status
		dirs := []string{"\tno-store", "private\t", "\t private", "no-store", "private", "max-age=10", "s-maxage=10", "public", "no-cache", "must-revalidate", "No-Store", " PRIVATE ", "max-age", "public=1", "x-no-store", "no-store=\"a,b\"", "", "max-age=\"1,private\"",
			"max-age=\"", "no-cache=\"", "private=\",\"", "\"", "=", "=private", "no-store=", "public=\"\"", "s-maxage=\"5\"", "\"no-store\"", "max-age=\"5", "max-age=5\""}
		statuses := []int{200, 203, 204, 206, 300, 301, 404, 405, 410, 414, 501, 201, 202, 302, 303, 307, 308, 400, 403, 500, 503, 100, 199, 299, 418, 451, 599, 600, 999, 1000}
		for i := 0; i < 40*len(statuses)/10; i++ {
			o := def()
			o.status = statuses[r.Intn(len(statuses))]
			k := r.Intn(4)
			vals := []string{}
			for j := 0; j < k; j++ {
				vals = append(vals, dirs[r.Intn(len(dirs))])
			}
			switch r.Intn(3) {
			case 0:
				if k > 0 {
					o.extraResp = append(o.extraResp, [2]string{randCase(r, "cache-control"), strings.Join(vals, []string{",", ", ", " , ", ",\t", "\t,", ", \t ", ",\v", ",\r\n "}[r.Intn(8)])})
				}
			case 1:
				for _, v := range vals {
					o.extraResp = append(o.extraResp, [2]string{randCase(r, "cache-control"), v})
				}
			}
			if r.Chance(1, 4) {
				o.extraResp = append(o.extraResp, [2]string{"Expires", []string{"Thu, 01 Dec 1994 16:00:00 GMT", "0", ""}[r.Intn(3)]})
			}
			one(version.Version1b3, o, d, d+100, "https://example.com/v", mid)
		}
		for _, kv := range [][2]string{{"raw:cache-control", "no-store"}, {"raw:cache-control", "max-age=3"}, {"raw:expires", "0"}, {"raw:CACHE-CONTROL", "private"}} {
			o := def()
			o.status = []int{200, 201}[r.Intn(2)]
			o.extraResp = [][2]string{kv}
			one(version.Version1b3, o, d, d+100, "https://example.com/v", mid)
			o.contentType = false
			o.extraResp = [][2]string{kv, {"raw:content-type", "text/html"}}
			one(version.Version1b3, o, d, d+100, "https://example.com/v", mid)
		}
		for _, st := range statuses {
			o := def()
			o.status = st
			one(version.Version1b3, o, d, d+100, "https://example.com/v", mid)
			o.extraResp = [][2]string{{"Cache-Control", "public"}}
			one(version.Version1b3, o, d, d+100, "https://example.com/v", mid)
		}
		if tier == "thorough" && rep == 0 {
			for st := 100; st < 600; st++ {
				o := def()
				o.status = st
				one(version.Version1b3, o, d, d+100, "https://example.com/v", mid)
			}
		}
	}
	return cs
}

func init() {
	regGen("C08", genC08)
	regGen("C02", genC02)
	regGen("C01", genC01)
	regGen("C09", genC09)
}
