package main

import (
	"strings"
)

// shuffle the insertion order of every header-pair list / map-like list inside a case
func shufflePairs(r *Rng, s Sx, depth int) Sx {
	if s.K != 2 {
		return s
	}
	items := make([]Sx, len(s.L))
	for i, x := range s.L {
		items[i] = shufflePairs(r, x, depth+1)
	}
	return L(items...)
}

// permuteHeaders permutes the order of (name value) pairs with distinct names
// (the order among values of one name is significant and is kept).
func permuteHeaders(r *Rng, h Sx) Sx {
	groups := map[string][]Sx{}
	order := []string{}
	for _, p := range h.L {
		k := strings.ToLower(string(p.L[0].B))
		if _, ok := groups[k]; !ok {
			order = append(order, k)
		}
		groups[k] = append(groups[k], p)
	}
	for i := len(order) - 1; i > 0; i-- {
		j := r.Intn(i + 1)
		order[i], order[j] = order[j], order[i]
	}
	out := []Sx{}
	for _, k := range order {
		out = append(out, groups[k]...)
	}
	return L(out...)
}

func genC18(r *Rng, tier string) []Case {
	keysOnce()
	cs := []Case{}
	n := 32
	conc := func(op string, args []Sx) {
		cs = append(cs, Case{"conc", []Sx{Sym(op), L(args...), Zi(int64(n)), Zu(r.U64())}})
	}
	shared := func(kind string, art []Sx) {
		cs = append(cs, Case{"conc_shared", []Sx{Sym(kind), L(art...), Zi(int64(n)), Zu(r.U64())}})
	}
	reps := 6
	if tier == "thorough" {
		reps = 60
	}
	for i := 0; i < 4; i++ { // several fresh processes: the schedule differs each time
		cs = append(cs, Case{"conc_first_use", []Sx{Zi(int64(i))}})
	}
	for i := 0; i < reps; i++ {
		// signed exchange serializers, with permuted header insertion order
		ver := sxgVersions[i%3]
		e := mkExchange(r, ver, exOpts{contentType: true, extraResp: randExtra(r, 3), extraReq: randExtra(r, 2), payloadLen: 30})
		e.SignatureHeaderValue = "label;sig=*AA==*"
		ex := exchangeInSx(e)
		for p := 0; p < 3; p++ {
			px := L(ex.L[0], ex.L[1], ex.L[2], permuteHeaders(r, ex.L[3]), ex.L[4], permuteHeaders(r, ex.L[5]), ex.L[6], ex.L[7])
			conc("sxg_headers", []Sx{px})
			conc("sxg_write", []Sx{px})
			msg := []Sx{px, L(B(sxgKeys[0].der)), B([]byte("https://example.com/v")), Zi(baseDate), Zi(baseDate + 100)}
			conc("sxg_signed_message", msg)
			conc("sxg_sigheader", []Sx{px, L(B(sxgKeys[0].der)), B([]byte("https://cert.example.org/c")), B([]byte("https://example.com/v")), Zi(baseDate), Zi(baseDate + 100)})
			shared("sxg", []Sx{px})
			shared("sxg_headers", []Sx{px})
			if p == 0 { // an exchange with no response / request header at all (nil maps in the harness)
				bare := mkExchange(r, ver, exOpts{contentType: false, payloadLen: 10})
				bare.SignatureHeaderValue = "label;sig=*AA==*"
				shared("sxg", []Sx{exchangeInSx(bare)})
				shared("sxg_headers", []Sx{exchangeInSx(bare)})
			}
			shared("sxg_message", msg)
		}
		se := mkExchange(r, ver, exOpts{contentType: true, extraResp: randExtra(r, 2), payloadLen: 30, uri: "https://example.com/index.html"})
		// case-variant map keys (caller-built header map): must be refused every time, never merged in map order
		cv := L(ex.L[0], ex.L[1], ex.L[2], ex.L[3], ex.L[4], L(append(append([]Sx{}, ex.L[5].L...), L(B([]byte("X-Variant")), B([]byte("alpha"))), L(B([]byte("x-variant")), B([]byte("beta")), Sym("raw")))...), ex.L[6], ex.L[7])
		conc("sxg_headers", []Sx{cv})
		shared("sxg_headers", []Sx{cv})
		cs = append(cs, Case{"conc_signer", []Sx{exchangeInSx(se), Zi(int64(i)), Zi(int64(n))}})
		cs = append(cs, Case{"conc_signer", []Sx{exchangeInSx(se), Zi(int64(i)), Zi(int64(n)), Sym("alg")}})
		cs = append(cs, Case{"conc_bsig_signer", []Sx{Sym(string(bverList()[i%2])), Zi(int64(n)), Zu(r.U64())}})
		// bundles (b1 with variants / b2), permuted header order per exchange
		b := randBundle(r, bverList()[i%2], 2+r.Intn(4))
		if i%2 == 0 {
			addVariantSet(r, b, 0)
		}
		for _, e := range b.Exchanges { // multi-valued fields: a serializer that "remembers" the joined value writes to a shared map
			e.Response.Header["X-Multi"] = []string{"a", "b"}
		}
		bx := bundleInSx(b)
		for p := 0; p < 2; p++ {
			xs := []Sx{}
			for _, x := range bx.L[4].L {
				xs = append(xs, L(x.L[0], x.L[1], permuteHeaders(r, x.L[2]), x.L[3]))
			}
			pb := L(bx.L[0], bx.L[1], bx.L[2], bx.L[3], L(xs...))
			conc("bundle_write", []Sx{pb, Sym("buffer")})
			shared("bundle", []Sx{pb})
		}
		// cert chain, CBOR maps in permuted order, structured headers, MI, integrity block, signed subset
		chain := []Sx{L(B(sxgKeys[0].der), B([]byte("ocsp")), B(r.Bytes(10))), L(B(sxgKeys[1].der), L(), L())}
		conc("cc_write", chain)
		shared("certchain", chain)
		m := randMap(r, 1, 6)
		for p := 0; p < 3; p++ {
			ents := append([]Sx{}, m.L[1].L...)
			for a := len(ents) - 1; a > 0; a-- {
				k := r.Intn(a + 1)
				ents[a], ents[k] = ents[k], ents[a]
			}
			conc("cbor_prog", []Sx{it("m", L(ents...))})
		}
		pi := randPi(r, true)
		for p := 0; p < 3; p++ {
			ps := append([]Sx{}, pi.L[1].L...)
			for a := len(ps) - 1; a > 0; a-- {
				k := r.Intn(a + 1)
				ps[a], ps[k] = ps[k], ps[a]
			}
			conc("sh_ser_pl", []Sx{L(pi.L[0], L(ps...))})
		}
		conc("mi_enc", []Sx{draftSym(i % 2), Zi(16), B(r.Bytes(50))})
		attrs := L(L(B([]byte("ed25519PublicKey")), B(r.Bytes(32))), L(B([]byte("a")), B(r.Bytes(3))), L(B([]byte("zz")), B(r.Bytes(3))))
		for p := 0; p < 2; p++ {
			as := append([]Sx{}, attrs.L...)
			for a := len(as) - 1; a > 0; a-- {
				k := r.Intn(a + 1)
				as[a], as[k] = as[k], as[a]
			}
			conc("ib_dtbs", []Sx{B(r.Bytes(64)), B([]byte{0x83}), L(as...)})
			conc("ib_block_cbor", []Sx{L(L(as...), B(r.Bytes(64)))})
		}
		conc("ib_id", []Sx{B(r.Bytes(32))})
		hs := []Sx{}
		for j := 0; j < 4; j++ {
			hs = append(hs, L(B([]byte("https://example.com/"+string(alnumBytes(r, 4)))), B(nil), L(L(B(r.Bytes(32)), B([]byte("digest/mi-sha256-03"))))))
		}
		for p := 0; p < 2; p++ {
			sh := append([]Sx{}, hs...)
			for a := len(sh) - 1; a > 0; a-- {
				k := r.Intn(a + 1)
				sh[a], sh[k] = sh[k], sh[a]
			}
			conc("bsig_encode", []Sx{L(B([]byte("https://example.com/v")), B(r.Bytes(32)), Zi(baseDate), Zi(baseDate+10), L(sh...))})
		}
	}
	return cs
}

func init() { regGen("C18", genC18) }
