package main

import (
	"bytes"
	"sort"
)

// independent canonical encoder used only to build valid inputs
func canonHead(major byte, v uint64) []byte {
	switch {
	case v < 24:
		return headBytes(major, 0, v)
	case v < 1<<8:
		return headBytes(major, 1, v)
	case v < 1<<16:
		return headBytes(major, 2, v)
	case v < 1<<32:
		return headBytes(major, 4, v)
	}
	return headBytes(major, 8, v)
}

// detItem returns a random deterministic item; heads records the offsets of
// all heads (so that mutations can target them) relative to the item start.
func detItem(r *Rng, depth int) []byte {
	k := r.Intn(6)
	if depth <= 0 && k >= 4 {
		k = r.Intn(4)
	}
	switch k {
	case 0:
		return canonHead(0x00, u64Edges[r.Intn(len(u64Edges))])
	case 1:
		return canonHead(0x00, uint64(r.Intn(30)))
	case 2:
		n := []int{0, 1, 5, 23, 24, 30, 255, 256}[r.Intn(8)]
		return append(canonHead(0x40, uint64(n)), r.Bytes(n)...)
	case 3:
		n := []int{0, 1, 5, 23, 24, 30}[r.Intn(6)]
		return append(canonHead(0x60, uint64(n)), asciiBytes(r, n)...)
	case 4:
		n := r.Intn(5)
		if r.Chance(1, 10) {
			n = 23 + r.Intn(4)
		}
		out := canonHead(0x80, uint64(n))
		for i := 0; i < n; i++ {
			out = append(out, detItem(r, depth-1)...)
		}
		return out
	default:
		n := r.Intn(5)
		keys := map[string][]byte{}
		for len(keys) < n {
			k := detItem(r, 0)
			keys[string(k)] = k
		}
		ks := [][]byte{}
		for _, k := range keys {
			ks = append(ks, k)
		}
		sort.Slice(ks, func(i, j int) bool { return bytes.Compare(ks[i], ks[j]) < 0 })
		out := canonHead(0xa0, uint64(n))
		for _, k := range ks {
			out = append(out, k...)
			out = append(out, detItem(r, depth-1)...)
		}
		return out
	}
}

var hugeVals = []uint64{1 << 31, 1 << 32, 1<<62 - 1, 1 << 62, 1<<62 + 1, 1<<63 - 1, 1 << 63, 1<<63 + 1, 1<<64 - 9, 1<<64 - 2, 1<<64 - 1}

func genC13(r *Rng, tier string) []Case {
	cs := []Case{}
	batch := []Sx{}
	flush := func() {
		if len(batch) > 0 {
			cs = append(cs, Case{"det_batch", []Sx{L(batch...)}})
			batch = nil
		}
	}
	add := func(b []byte) {
		batch = append(batch, B(b))
		if len(batch) >= 2048 {
			flush()
		}
	}
	// exhaustive: all byte strings up to length 2 (3 in the thorough tier)
	add([]byte{})
	for a := 0; a < 256; a++ {
		add([]byte{byte(a)})
	}
	for a := 0; a < 256; a++ {
		for b := 0; b < 256; b++ {
			add([]byte{byte(a), byte(b)})
		}
	}
	if tier == "thorough" {
		for a := 0; a < 256; a++ {
			for b := 0; b < 256; b++ {
				for c := 0; c < 256; c++ {
					add([]byte{byte(a), byte(b), byte(c)})
				}
			}
		}
	}
	// exhaustive over a 12-symbol alphabet of grammar-relevant bytes
	alpha := []byte{0x00, 0x01, 0x17, 0x18, 0x19, 0x40, 0x41, 0x60, 0x80, 0x81, 0xa0, 0xa1}
	maxLen := 4
	if tier == "thorough" {
		maxLen = 6
	}
	var rec func(prefix []byte)
	rec = func(prefix []byte) {
		if len(prefix) >= 3 {
			add(append([]byte{}, prefix...))
		}
		if len(prefix) == maxLen {
			return
		}
		for _, c := range alpha {
			rec(append(prefix, c))
		}
	}
	rec([]byte{})
	// a second alphabet exercising maps with two pairs and ordering
	alpha2 := []byte{0xa2, 0x01, 0x02, 0x41, 0x00}
	maxLen2 := 7
	if tier == "thorough" {
		maxLen2 = 9
	}
	var rec2 func(prefix []byte)
	rec2 = func(prefix []byte) {
		if len(prefix) >= 5 {
			add(append([]byte{}, prefix...))
		}
		if len(prefix) == maxLen2 {
			return
		}
		for _, c := range alpha2 {
			rec2(append(prefix, c))
		}
	}
	rec2([]byte{0xa2})
	flush()
	one := func(b []byte) { cs = append(cs, Case{"det", []Sx{B(b)}}) }
	// F3 witnesses and relatives: huge lengths / counts for every head kind
	for _, major := range []byte{0x00, 0x40, 0x60, 0x80, 0xa0} {
		for _, v := range hugeVals {
			h := headBytes(major, 8, v)
			one(h)
			one(append(append([]byte{}, h...), 0x00))
			one(append(append([]byte{}, h...), bytes.Repeat([]byte{0x00}, 40)...))
			one(append([]byte{0x81}, h...))
			one(append(append([]byte{0xa1}, h...), 0x00))
		}
	}
	// generated nested items: valid, and one mutation each
	n := 2500
	if tier == "thorough" {
		n = 80000
	}
	for i := 0; i < n; i++ {
		var in []byte
		for j := r.Range(1, 3); j > 0; j-- {
			in = append(in, detItem(r, 3)...)
		}
		one(in)
		m := append([]byte{}, in...)
		switch r.Intn(9) {
		case 0: // truncate
			m = m[:r.Intn(len(m))]
		case 1: // append garbage
			m = append(m, r.Bytes(1+r.Intn(3))...)
		case 2: // flip a bit
			m[r.Intn(len(m))] ^= byte(1 << uint(r.Intn(8)))
		case 3: // lengthen a head: find a byte with ai<24 and re-encode wider
			p := r.Intn(len(m))
			b := m[p]
			if b&0x1f < 24 && b < 0xc0 {
				w := []int{1, 2, 4, 8}[r.Intn(4)]
				h := headBytes(b&0xe0, w, uint64(b&0x1f))
				m = append(append(append([]byte{}, m[:p]...), h...), m[p+1:]...)
			}
		case 4: // replace a byte by a huge 8-byte head of the same major type
			p := r.Intn(len(m))
			h := headBytes(m[p]&0xe0, 8, hugeVals[r.Intn(len(hugeVals))])
			m = append(append(append([]byte{}, m[:p]...), h...), m[p+1:]...)
		case 5: // set a byte
			m[r.Intn(len(m))] = byte(r.U64())
		case 6: // delete a byte
			p := r.Intn(len(m))
			m = append(append([]byte{}, m[:p]...), m[p+1:]...)
		case 7: // duplicate a slice (often duplicates / disorders a map key)
			p := r.Intn(len(m))
			q := p + 1 + r.Intn(len(m)-p)
			m = append(append(append([]byte{}, m[:q]...), m[p:q]...), m[q:]...)
		default: // swap two adjacent bytes
			if len(m) >= 2 {
				p := r.Intn(len(m) - 1)
				m[p], m[p+1] = m[p+1], m[p]
			}
		}
		one(m)
	}
	// inputs that end inside a 1/2/4/8-byte integer head (top level, in an array, as a map value)
	for _, h := range [][]byte{{0x18, 0x20}, {0x19, 0x01, 0x00}, {0x1a, 0x00, 0x01, 0x00, 0x00}, {0x1b, 0, 0, 0, 1, 0, 0, 0, 0}, {0x39, 0x01, 0x00}, {0x59, 0x01, 0x00}, {0x99, 0x01, 0x00}} {
		for cut := 1; cut < len(h); cut++ {
			t := h[:cut]
			one(t)
			one(append([]byte{0x82, 0x01}, t...))
			one(append([]byte{0xa1, 0x61, 0x61}, t...))
		}
	}
	// a byte / text string of every length class as the last thing of the input (top level, last array
	// element, last map value), complete, with 1 or 2 final bytes missing, and with one extra byte
	for _, n := range []int{0, 1, 22, 23, 24, 25, 100, 255, 256, 257, 1000} {
		for _, major := range []byte{0x40, 0x60} {
			str := append(canonHead(major, uint64(n)), asciiBytes(r, n)...)
			wraps := [][]byte{str, append([]byte{0x82, 0x01}, str...), append([]byte{0xa1, 0x01}, str...),
				append([]byte{0x81, 0x82, 0x00}, str...), append(append([]byte{0xa2, 0x01}, str...), append([]byte{0x02}, str...)...)}
			for _, w := range wraps {
				one(w)
				for cut := 1; cut <= 2 && cut < len(w); cut++ {
					one(w[:len(w)-cut])
				}
				one(append(append([]byte{}, w...), 0x00))
			}
		}
	}
	// deep nesting (RFC 8949 core deterministic form has no depth limit): d containers around one leaf,
	// as arrays, as maps nested through the value, through the key, and alternating; each also with
	// a non-minimal leaf and with the leaf missing
	for _, d := range []int{7, 8, 9, 15, 16, 17, 31, 32, 33, 34, 63, 64, 65, 100, 127, 128, 129, 255, 256, 257, 1000, 4096} {
		for _, leaf := range [][]byte{{0x07}, {0x18, 0x07}, {}} {
			arr := append(bytes.Repeat([]byte{0x81}, d), leaf...)
			one(arr)
			mv := append(bytes.Repeat([]byte{0xa1, 0x00}, d), leaf...)
			one(mv)
			mk := append(append(bytes.Repeat([]byte{0xa1}, d), leaf...), bytes.Repeat([]byte{0x00}, d)...)
			one(mk)
			alt := []byte{}
			for i := 0; i < d; i++ {
				if i%2 == 0 {
					alt = append(alt, 0x82, 0x01)
				} else {
					alt = append(alt, 0xa1, 0x41, 0x78)
				}
			}
			one(append(alt, leaf...))
		}
	}
	// maps with swapped / duplicated key pairs, built explicitly
	for i := 0; i < 400; i++ {
		nk := 2 + r.Intn(4)
		keys := map[string][]byte{}
		for len(keys) < nk {
			k := detItem(r, 0)
			keys[string(k)] = k
		}
		ks := [][]byte{}
		for _, k := range keys {
			ks = append(ks, k)
		}
		sort.Slice(ks, func(a, b int) bool { return bytes.Compare(ks[a], ks[b]) < 0 })
		switch r.Intn(3) {
		case 0:
			a := r.Intn(nk - 1)
			ks[a], ks[a+1] = ks[a+1], ks[a]
		case 1:
			ks[r.Intn(nk)] = ks[r.Intn(nk)]
		}
		out := canonHead(0xa0, uint64(nk))
		for _, k := range ks {
			out = append(out, k...)
			out = append(out, detItem(r, 1)...)
		}
		one(out)
	}
	return cs
}

func init() { regGen("C13", genC13) }
