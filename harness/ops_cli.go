package main

import (
	"io"
	"bytes"
	"crypto/ecdsa"
	"crypto/ed25519"
	"crypto/elliptic"
	"crypto/rand"
	"crypto/x509"
	"encoding/base64"
	"encoding/json"
	"encoding/pem"
	"fmt"
	"net/url"
	"os"
	"os/exec"
	"path/filepath"
	"sort"
	"strings"
	"time"

	"github.com/WICG/webpackage/go/bundle"
	"github.com/youmark/pkcs8"
)

func runTool(env []string, stdout *bytes.Buffer, name string, args ...string) (string, error) {
	return runToolIn("", env, stdout, name, args...)
}

// runToolStdin feeds the tool through a pipe on its standard input (not a regular file: size 0, not seekable)
func runToolStdin(stdin []byte, env []string, stdout *bytes.Buffer, name string, args ...string) (string, error) {
	return runToolFull("", stdin, env, stdout, name, args...)
}

func runToolIn(dir string, env []string, stdout *bytes.Buffer, name string, args ...string) (string, error) {
	return runToolFull(dir, nil, env, stdout, name, args...)
}

// (no package-level state here: a case that overran its deadline keeps running while the next one starts)
func runToolFull(dir string, stdin []byte, env []string, stdout *bytes.Buffer, name string, args ...string) (string, error) {
	cmd := exec.Command(filepath.Join(binDir(), name), args...)
	cmd.Dir = dir
	if stdin != nil {
		cmd.Stdin = io.MultiReader(bytes.NewReader(stdin)) // not an *os.File: exec hands the tool a pipe
	}
	var se bytes.Buffer
	if stdout != nil {
		cmd.Stdout = stdout
	} else {
		cmd.Stdout = &se
	}
	cmd.Stderr = &se
	cmd.Env = append(os.Environ(), env...)
	done := make(chan error, 1)
	if err := cmd.Start(); err != nil {
		return "", err
	}
	go func() { done <- cmd.Wait() }()
	expired, stop := afterTicks(4 * caseTimeout) // always after the case limit itself (20 s in the parallel pass)
	defer stop()
	select {
	case err := <-done:
		return se.String(), err
	case <-expired:
		cmd.Process.Kill()
		return se.String(), fmt.Errorf("timeout")
	}
}

// prefill puts stale content at an output path: every tool must replace it entirely
func prefill(path string) {
	os.WriteFile(path, bytes.Repeat([]byte("stale output of an earlier run\n"), 4000), 0644)
}

func writeTree(root string, tree []Sx) error {
	for _, f := range tree {
		rel := string(f.L[0].B)
		p := filepath.Join(root, filepath.FromSlash(rel))
		if f.L[1].Z.Sign() != 0 {
			if err := os.MkdirAll(p, 0755); err != nil {
				return err
			}
		}
	}
	for _, f := range tree {
		if f.L[1].Z.Sign() == 0 {
			p := filepath.Join(root, filepath.FromSlash(string(f.L[0].B)))
			if err := os.MkdirAll(filepath.Dir(p), 0755); err != nil {
				return err
			}
			if err := os.WriteFile(p, f.L[2].B, 0644); err != nil {
				return err
			}
		}
	}
	return nil
}

func fail(why string, detail string) Sx {
	if len(detail) > 300 {
		detail = detail[:300]
	}
	return L(Sym("fail"), B([]byte(why+": "+detail)))
}

func opCliGenDir(a []Sx) Sx {
	d, clean := tmpDir()
	defer clean()
	root := filepath.Join(d, "root")
	os.MkdirAll(root, 0755)
	if err := writeTree(root, a[2].L); err != nil {
		return L(Sym("skip")) // a name the file system refuses
	}
	out := filepath.Join(d, "out.wbn")
	prefill(out)
	// a[3] (optional): how -dir is spelled: abs | dot (./root) | slash (root//) | updown (x/../root) | cwd (.)
	dirArg, cwd := root, ""
	if len(a) > 3 {
		switch string(a[3].B) {
		case "dot":
			dirArg, cwd = "./root", d
		case "slash":
			dirArg, cwd = "root//", d
		case "updown":
			os.MkdirAll(filepath.Join(d, "x"), 0755)
			dirArg, cwd = "x/../root", d
		case "cwd":
			dirArg, cwd = ".", root
		}
	}
	args := []string{"-version", string(a[0].B), "-dir", dirArg, "-baseURL", string(a[1].B), "-o", out}
	if a[0].IsSym("b1") {
		args = append(args, "-primaryURL", string(a[1].B), "-ignoreErrors")
	}
	if se, err := runToolIn(cwd, nil, nil, "gen-bundle", args...); err != nil {
		return fail("gen-bundle", se)
	}
	fb, err := os.ReadFile(out)
	if err != nil {
		return fail("read output", err.Error())
	}
	b, err := bundle.Read(bytes.NewReader(fb))
	if err != nil {
		return fail("bundle.Read rejects gen-bundle output", err.Error())
	}
	_, derr := runTool(nil, nil, "dump-bundle", "-i", out)
	xs := []Sx{}
	for _, e := range b.Exchanges {
		xs = append(xs, L(B([]byte(e.Request.URL.String())), Zi(int64(e.Response.Status)), B(e.Response.Body)))
	}
	sort.Slice(xs, func(i, j int) bool { return bytes.Compare(xs[i].L[0].B, xs[j].L[0].B) < 0 })
	return L(Sym("ok"), Bool(derr == nil), L(xs...))
}

// cli_gen_har ver primary|() ((url method status ((name value)...) text b64)...)
func opCliGenHar(a []Sx) Sx {
	d, clean := tmpDir()
	defer clean()
	type nvp struct {
		Name  string `json:"name"`
		Value string `json:"value"`
	}
	entries := []interface{}{}
	for _, e := range a[2].L {
		hs := []nvp{}
		for _, h := range e.L[3].L {
			hs = append(hs, nvp{string(h.L[0].B), string(h.L[1].B)})
		}
		content := map[string]interface{}{"text": string(e.L[4].B), "mimeType": "text/plain", "size": len(e.L[4].B)}
		if e.L[5].Int() != 0 {
			content["encoding"] = "base64"
		}
		entries = append(entries, map[string]interface{}{
			"request":  map[string]interface{}{"method": string(e.L[1].B), "url": string(e.L[0].B), "headers": []nvp{{"Accept", "*/*"}, {":authority", "example.com"}, {"Cookie", "a=b"}}},
			"response": map[string]interface{}{"status": e.L[2].Int(), "headers": hs, "content": content},
		})
	}
	js, err := json.Marshal(map[string]interface{}{"log": map[string]interface{}{"version": "1.2", "entries": entries}})
	if err != nil {
		return L(Sym("skip"))
	}
	har := filepath.Join(d, "in.har")
	os.WriteFile(har, js, 0600)
	out := filepath.Join(d, "out.wbn")
	args := []string{"-version", string(a[0].B), "-har", har, "-o", out}
	if a[1].K == 1 {
		args = append(args, "-primaryURL", string(a[1].B), "-ignoreErrors")
	}
	if _, err := runTool(nil, nil, "gen-bundle", args...); err != nil {
		return L(Sym("refused"))
	}
	fb, err := os.ReadFile(out)
	if err != nil {
		return fail("read output", err.Error())
	}
	b, err := bundle.Read(bytes.NewReader(fb))
	if err != nil {
		return fail("bundle.Read rejects gen-bundle output", err.Error())
	}
	_, derr := runTool(nil, nil, "dump-bundle", "-i", out)
	xs := []Sx{}
	for _, e := range b.Exchanges {
		xs = append(xs, bexchangeSx(e))
	}
	sort.SliceStable(xs, func(i, j int) bool { return bytes.Compare(xs[i].L[0].B, xs[j].L[0].B) < 0 })
	return L(Sym("ok"), Bool(derr == nil), L(xs...))
}

// cli_gen_primary ver primary tree: gen-bundle WITHOUT -ignoreErrors: Bundle.Validate must accept a primary
// URL that has an exchange and refuse one that has none
func opCliGenPrimary(a []Sx) Sx {
	d, clean := tmpDir()
	defer clean()
	root := filepath.Join(d, "root")
	os.MkdirAll(root, 0755)
	if err := writeTree(root, a[2].L); err != nil {
		return L(Sym("skip"))
	}
	out := filepath.Join(d, "out.wbn")
	args := []string{"-version", string(a[0].B), "-dir", root, "-baseURL", "https://example.com/site/", "-o", out, "-primaryURL", string(a[1].B)}
	if _, err := runTool(nil, nil, "gen-bundle", args...); err != nil {
		return L(Sym("refused"))
	}
	if _, err := runTool(nil, nil, "dump-bundle", "-i", out); err != nil {
		return fail("dump-bundle rejects gen-bundle output", "")
	}
	return L(Sym("ok"))
}

// cli_sign_refuse kind: inputs for which sign-bundle signatures-section must refuse rather than
// emit a bundle that does not verify.  kind: keymismatch | rs0 | rsneg | rs16385 | emptydigest
// kind seconddigest: a bundle with exchanges of two hosts (from a HAR capture), signed by the first host's
// signer, then by the second host's signer although that host's exchange already carries an origin-supplied
// Digest header: the second run must refuse, not emit a bundle in which the covered exchange is unsigned
func cliSecondDigest(d string, env []string) Sx {
	type nvp struct {
		Name  string `json:"name"`
		Value string `json:"value"`
	}
	ent := func(u string, hs []nvp) interface{} {
		return map[string]interface{}{
			"request":  map[string]interface{}{"method": "GET", "url": u, "headers": []nvp{{"Accept", "*/*"}}},
			"response": map[string]interface{}{"status": 200, "headers": hs, "content": map[string]interface{}{"text": "body of " + u, "mimeType": "text/plain", "size": 8 + len(u)}},
		}
	}
	js, _ := json.Marshal(map[string]interface{}{"log": map[string]interface{}{"version": "1.2", "entries": []interface{}{
		ent("https://example.com/a", []nvp{{"Content-Type", "text/plain"}}),
		ent("https://a.test/b", []nvp{{"Content-Type", "text/plain"}, {"Digest", "sha-256=X48E9qOokqqrvdts8nOJRJN3OWDUoyWxBf7kbu9DBPE="}}),
	}}})
	har := filepath.Join(d, "in.har")
	os.WriteFile(har, js, 0600)
	wbn := filepath.Join(d, "in.wbn")
	if se, err := runTool(env, nil, "gen-bundle", "-version", "b2", "-har", har, "-o", wbn); err != nil {
		return fail("gen-bundle -har", se)
	}
	certs := []string{}
	keys := []string{}
	for i, host := range []string{"example.com", "a.test"} {
		kd := filepath.Join(d, fmt.Sprintf("k%d", i))
		os.MkdirAll(kd, 0755)
		forms, _ := writeKeyForms(kd, elliptic.P256(), host)
		var cc bytes.Buffer
		if se, err := runTool(env, &cc, "gen-certurl", "-pem", filepath.Join(kd, "cert.pem"), "-ocsp", filepath.Join(kd, "ocsp.der")); err != nil {
			return fail("gen-certurl", se)
		}
		c := filepath.Join(kd, "cert.cbor")
		os.WriteFile(c, cc.Bytes(), 0600)
		certs, keys = append(certs, c), append(keys, forms["sec1"])
	}
	s1, s2 := filepath.Join(d, "s1.wbn"), filepath.Join(d, "s2.wbn")
	if se, err := runTool(env, nil, "sign-bundle", "signatures-section", "-i", wbn, "-o", s1, "-certificate", certs[0], "-privateKey", keys[0]); err != nil {
		return fail("first signer refused", se)
	}
	if _, err := runTool(env, nil, "sign-bundle", "signatures-section", "-i", s1, "-o", s2, "-certificate", certs[1], "-privateKey", keys[1]); err != nil {
		return L(Sym("refused"))
	}
	var do bytes.Buffer
	if se, err := runTool(env, &do, "dump-bundle", "-i", s2, "-contentText=false"); err != nil {
		return fail("sign-bundle emitted a bundle dump-bundle rejects", se)
	}
	if strings.Contains(do.String(), "[Not signed]") || strings.Contains(do.String(), "verification error") {
		return fail("second signer left its own exchange unsigned", "")
	}
	return L(Sym("signed_and_verifies"))
}

func opCliSignRefuse(a []Sx) Sx {
	d, clean := tmpDir()
	defer clean()
	env := []string{"WEB_BUNDLE_SIGNING_PASSPHRASE= secret passphrase\t"}
	kind := string(a[0].B)
	if kind == "seconddigest" {
		return cliSecondDigest(d, env)
	}
	root := filepath.Join(d, "root")
	os.MkdirAll(root, 0755)
	os.WriteFile(filepath.Join(root, "index.html"), []byte("<html>hi</html>"), 0644)
	os.WriteFile(filepath.Join(root, "a.txt"), bytes.Repeat([]byte("x"), 40000), 0644)
	wbn := filepath.Join(d, "in.wbn")
	gargs := []string{"-version", "b2", "-dir", root, "-baseURL", "https://example.com/site/", "-o", wbn}
	if kind == "emptydigest" {
		gargs = append(gargs, "-headerOverride", "Digest:")
	}
	if se, err := runTool(env, nil, "gen-bundle", gargs...); err != nil {
		return fail("gen-bundle", se)
	}
	forms, _ := writeKeyForms(d, elliptic.P256(), "example.com")
	var cc bytes.Buffer
	if se, err := runTool(env, &cc, "gen-certurl", "-pem", filepath.Join(d, "cert.pem"), "-ocsp", filepath.Join(d, "ocsp.der")); err != nil {
		return fail("gen-certurl", se)
	}
	certCbor := filepath.Join(d, "cert.cbor")
	os.WriteFile(certCbor, cc.Bytes(), 0600)
	keyPath := forms["sec1"]
	if kind == "keymismatch" {
		d2 := filepath.Join(d, "other")
		os.MkdirAll(d2, 0755)
		other, _ := writeKeyForms(d2, []elliptic.Curve{elliptic.P256(), elliptic.P384()}[a[1].Int()%2], "example.com")
		keyPath = other["sec1"]
	}
	rs := "16"
	switch kind {
	case "rs0":
		rs = "0"
	case "rsneg":
		rs = "-1"
	case "rs16385":
		rs = "16385"
	}
	signed := filepath.Join(d, "signed.wbn")
	if _, err := runTool(env, nil, "sign-bundle", "signatures-section", "-i", wbn, "-o", signed, "-certificate", certCbor, "-privateKey", keyPath, "-miRecordSize", rs); err != nil {
		return L(Sym("refused"))
	}
	var do bytes.Buffer
	se, err := runTool(env, &do, "dump-bundle", "-i", signed, "-contentText=false")
	if err != nil {
		return fail("sign-bundle emitted a bundle dump-bundle rejects", se)
	}
	if strings.Contains(do.String(), "verification error") || strings.Contains(do.String(), "[Not signed]") {
		return fail("sign-bundle emitted a bundle that does not verify", "")
	}
	return L(Sym("signed_and_verifies"))
}

type cliKeys struct {
	dir               string
	ecPriv            *ecdsa.PrivateKey
	certPEM, chainPEM string
	certCbor          string
	edPriv            ed25519.PrivateKey
}

func pemFile(path, typ string, der []byte) {
	os.WriteFile(path, pem.EncodeToMemory(&pem.Block{Type: typ, Bytes: der}), 0600)
}

// key material in every PEM form the tools accept
func writeKeyForms(dir string, curve elliptic.Curve, cn string) (map[string]string, keyMat) {
	k := newECKey(curve, cn, 0, 0)
	priv := k.priv.(*ecdsa.PrivateKey)
	forms := map[string]string{}
	sec1, _ := x509.MarshalECPrivateKey(priv)
	forms["sec1"] = filepath.Join(dir, "key-sec1.pem")
	pemFile(forms["sec1"], "EC PRIVATE KEY", sec1)
	p8, _ := x509.MarshalPKCS8PrivateKey(priv)
	forms["pkcs8"] = filepath.Join(dir, "key-pkcs8.pem")
	pemFile(forms["pkcs8"], "PRIVATE KEY", p8)
	enc, err := pkcs8.MarshalPrivateKey(priv, []byte(" secret passphrase\t"), nil)
	if err == nil {
		forms["encrypted"] = filepath.Join(dir, "key-enc.pem")
		pemFile(forms["encrypted"], "ENCRYPTED PRIVATE KEY", enc)
	}
	// what `openssl ecparam -genkey` writes: an EC PARAMETERS block (the curve OID) before the key, and
	// what `openssl pkcs12 -nodes` writes: explanatory text before the block
	oid := []byte{0x06, 0x08, 0x2a, 0x86, 0x48, 0xce, 0x3d, 0x03, 0x01, 0x07}
	if curve == elliptic.P384() {
		oid = []byte{0x06, 0x05, 0x2b, 0x81, 0x04, 0x00, 0x22}
	}
	forms["params"] = filepath.Join(dir, "key-params.pem")
	os.WriteFile(forms["params"], append(pem.EncodeToMemory(&pem.Block{Type: "EC PARAMETERS", Bytes: oid}), pem.EncodeToMemory(&pem.Block{Type: "EC PRIVATE KEY", Bytes: sec1})...), 0600)
	forms["bagtext"] = filepath.Join(dir, "key-bag.pem")
	os.WriteFile(forms["bagtext"], append([]byte("Bag Attributes\n    friendlyName: signing key\nKey Attributes: <No Attributes>\n"), append(pem.EncodeToMemory(&pem.Block{Type: "PRIVATE KEY", Bytes: p8}), '\n', '\n')...), 0600)
	pemFile(filepath.Join(dir, "cert.pem"), "CERTIFICATE", k.der)
	os.WriteFile(filepath.Join(dir, "ocsp.der"), []byte("dummy-ocsp"), 0600)
	return forms, k
}

// cli_chain kind ...
func opCliChain(a []Sx) Sx {
	d, clean := tmpDir()
	defer clean()
	kind := string(a[0].B)
	env := []string{"WEB_BUNDLE_SIGNING_PASSPHRASE= secret passphrase\t"}
	switch kind {
	case "certurl", "sxg":
		curve := elliptic.P256()
		if a[1].Int()%2 == 1 {
			curve = elliptic.P384()
		}
		forms, _ := writeKeyForms(d, curve, "example.com")
		certCbor := filepath.Join(d, "cert.cbor")
		var out bytes.Buffer
		cargs := []string{"-pem", filepath.Join(d, "cert.pem"), "-ocsp", filepath.Join(d, "ocsp.der")}
		if len(a) > 6 && a[6].Int() > 0 {
			sd := filepath.Join(d, "scts")
			os.MkdirAll(sd, 0755)
			for i := 0; i < a[6].Int(); i++ {
				os.WriteFile(filepath.Join(sd, fmt.Sprintf("%d.sct", i)), bytes.Repeat([]byte{byte(i)}, 40+i), 0600)
			}
			cargs = append(cargs, "-sctDir", sd)
		}
		if se, err := runTool(env, &out, "gen-certurl", cargs...); err != nil {
			return fail("gen-certurl", se)
		}
		os.WriteFile(certCbor, out.Bytes(), 0600)
		var viaFile, viaPipe bytes.Buffer
		if se, err := runTool(env, &viaFile, "dump-certurl", "-i", certCbor); err != nil {
			return fail("dump-certurl rejects gen-certurl output", se)
		}
		// gen-certurl ... | dump-certurl
		if se, err := runToolStdin(out.Bytes(), env, &viaPipe, "dump-certurl"); err != nil {
			return fail("dump-certurl rejects gen-certurl output that arrives through a pipe", se)
		}
		if viaFile.String() != viaPipe.String() {
			return fail("dump-certurl prints something else for a pipe", "")
		}
		if kind == "certurl" {
			return L(Sym("ok"))
		}
		// a[2] version, a[3] key form, a[4] record size, a[5] payload, a[7] output to stdout?
		form := string(a[3].B)
		keyPath, ok := forms[form]
		if !ok {
			return L(Sym("skip"))
		}
		content := filepath.Join(d, "payload.bin")
		os.WriteFile(content, a[5].B, 0600)
		sxgPath := filepath.Join(d, "out.sxg")
		prefill(sxgPath)
		gargs := []string{"-version", string(a[2].B), "-uri", "https://example.com/index.html", "-content", content,
			"-certificate", filepath.Join(d, "cert.pem"), "-privateKey", keyPath, "-miRecordSize", fmt.Sprint(a[4].Int()),
			"-certUrl", "https://example.com/cert.cbor", "-validityUrl", "https://example.com/resource.validity.msg",
			"-expire", "1h"}
		if len(a) > 7 && a[7].Int() != 0 {
			var so bytes.Buffer
			if se, err := runTool(env, &so, "gen-signedexchange", append(gargs, "-o", "-")...); err != nil {
				return fail("gen-signedexchange", se)
			}
			os.WriteFile(sxgPath, so.Bytes(), 0600)
		} else {
			if se, err := runTool(env, nil, "gen-signedexchange", append(gargs, "-o", sxgPath)...); err != nil {
				return fail("gen-signedexchange", se)
			}
		}
		var vo bytes.Buffer
		se, err := runTool(env, &vo, "dump-signedexchange", "-i", sxgPath, "-verify", "-cert", certCbor, "-payload=false")
		if err != nil || !strings.Contains(vo.String(), "The exchange has a valid signature.") {
			return fail("dump-signedexchange -verify rejects gen-signedexchange output", se+vo.String())
		}
		// gen-signedexchange ... | dump-signedexchange -verify
		if sxgBytes, rerr := os.ReadFile(sxgPath); rerr == nil {
			var po bytes.Buffer
			se, err := runToolStdin(sxgBytes, env, &po, "dump-signedexchange", "-verify", "-cert", certCbor, "-payload=false")
			if err != nil || !strings.Contains(po.String(), "The exchange has a valid signature.") {
				return fail("dump-signedexchange -verify rejects gen-signedexchange output that arrives through a pipe", se+po.String())
			}
		}
		return L(Sym("ok"))
	case "signbundle":
		// a[1] bundle version, a[2] tree, a[3] key form, a[4] record size
		root := filepath.Join(d, "root")
		os.MkdirAll(root, 0755)
		if err := writeTree(root, a[2].L); err != nil {
			return L(Sym("skip"))
		}
		wbn := filepath.Join(d, "in.wbn")
		prefill(wbn)
		gargs := []string{"-version", string(a[1].B), "-dir", root, "-baseURL", "https://example.com/site/", "-o", wbn}
		if a[1].IsSym("b1") {
			gargs = append(gargs, "-primaryURL", "https://example.com/site/", "-ignoreErrors")
			if len(a) > 5 && a[5].Int() != 0 {
				gargs = append(gargs, "-manifestURL", "https://example.com/site/manifest.json")
			}
		}
		if se, err := runTool(env, nil, "gen-bundle", gargs...); err != nil {
			return fail("gen-bundle", se)
		}
		forms, _ := writeKeyForms(d, elliptic.P256(), "example.com")
		var cc bytes.Buffer
		if se, err := runTool(env, &cc, "gen-certurl", "-pem", filepath.Join(d, "cert.pem"), "-ocsp", filepath.Join(d, "ocsp.der")); err != nil {
			return fail("gen-certurl", se)
		}
		certCbor := filepath.Join(d, "cert.cbor")
		os.WriteFile(certCbor, cc.Bytes(), 0600)
		keyPath, ok := forms[string(a[3].B)]
		if !ok {
			return L(Sym("skip"))
		}
		signed := filepath.Join(d, "signed.wbn")
		prefill(signed)
		sargs := []string{"signatures-section", "-i", wbn, "-o", signed, "-certificate", certCbor,
			"-privateKey", keyPath, "-miRecordSize", fmt.Sprint(a[4].Int())}
		if len(a) > 6 && a[6].Int() > 0 { // -date: one minute ago, written in UTC or with a zone offset
			zone := []*time.Location{time.UTC, time.FixedZone("", 9*3600), time.FixedZone("", -(5*3600 + 1800))}[(a[6].Int()-1)%3]
			sargs = append(sargs, "-date", time.Now().Add(-time.Minute).In(zone).Format(time.RFC3339))
		}
		if se, err := runTool(env, nil, "sign-bundle", sargs...); err != nil {
			return fail("sign-bundle signatures-section rejects gen-bundle output", se)
		}
		var do bytes.Buffer
		se, err := runTool(env, &do, "dump-bundle", "-i", signed, "-contentText=false")
		if err != nil {
			return fail("dump-bundle rejects sign-bundle output", se)
		}
		if strings.Contains(do.String(), "verification error") || !strings.Contains(do.String(), "[Signed with certificate #0]") || strings.Contains(do.String(), "[Not signed]") {
			return fail("signed bundle does not verify", do.String())
		}
		// integrity block on the unsigned bundle
		_, edPriv, _ := ed25519.GenerateKey(rand.Reader)
		edKey := filepath.Join(d, "ed.pem")
		os.WriteFile(edKey, ed25519PEM(edPriv), 0600)
		swbn := filepath.Join(d, "out.swbn")
		prefill(swbn)
		var so bytes.Buffer
		if se, err := runTool(env, &so, "sign-bundle", "integrity-block", "-i", wbn, "-o", swbn, "-privateKey", edKey); err != nil {
			return fail("sign-bundle integrity-block rejects gen-bundle output", se+so.String())
		}
		in, _ := os.ReadFile(wbn)
		outb, _ := os.ReadFile(swbn)
		if !bytes.HasSuffix(outb, in) || len(outb) <= len(in) {
			return fail("integrity-block output is not block ++ input", "")
		}
		var ido bytes.Buffer
		if se, err := runTool(env, &ido, "sign-bundle", "dump-id", "-privateKey", edKey); err != nil {
			return fail("dump-id", se)
		}
		if !strings.Contains(so.String(), strings.TrimSpace(ido.String())) {
			return fail("web bundle id mismatch", so.String()+ido.String())
		}
		// the same ID from the public key alone
		if pkix, err := x509.MarshalPKIXPublicKey(edPriv.Public()); err == nil {
			pubKey := filepath.Join(d, "ed-pub.pem")
			pemFile(pubKey, "PUBLIC KEY", pkix)
			var pdo bytes.Buffer
			if se, err := runTool(env, &pdo, "sign-bundle", "dump-id", "-publicKey", pubKey); err != nil {
				return fail("dump-id -publicKey", se)
			}
			if strings.TrimSpace(pdo.String()) != strings.TrimSpace(ido.String()) {
				return fail("web bundle id from the public key differs", pdo.String()+ido.String())
			}
		}
		return L(Sym("ok"))
	}
	return L(Sym("badkind"))
}

func genC20(r *Rng, tier string) []Case {
	cs := []Case{}
	names := []string{"a.txt", "b c.html", "h#frag.txt", "a?b", "p%41", "100%", "x:y", ":colon", "é.txt", "日本.html", "index.html", ".hidden", "semi;colon", "q=1&r", "plus+", "at@", "tilde~", "bang!", "(paren)", "quote'\"", "back\\slash", "star*", "new\nline", "tab\there", "[brk]", "caret^", "pipe|", "\xff\xfe", "...", "out.wbn", "in.wbn", "out.swbn", "cert.cbor", "key.pem"}
	dirs := []string{"sub", "sub dir", "d#1", "深", "a/b/c", "sub/index.html.d"}
	bases := []string{"https://example.com/", "https://example.com", "https://example.com/site/", "https://example.com:8443/a/b/", "https://example.com/site/page.html", "https://example.com/site/?q=1", "https://example.com/site/#frag"}
	n := 40
	if tier == "thorough" {
		n = 600
	}
	for i := 0; i < n; i++ {
		tree := []Sx{L(B([]byte("")), Zi(1), B(nil))}
		used := map[string]bool{"": true}
		nd := r.Intn(3)
		mydirs := []string{""}
		for j := 0; j < nd; j++ {
			dname := dirs[r.Intn(len(dirs))]
			parts := strings.Split(dname, "/")
			for k := 1; k <= len(parts); k++ {
				p := strings.Join(parts[:k], "/")
				if !used[p] {
					used[p] = true
					tree = append(tree, L(B([]byte(p)), Zi(1), B(nil)))
					mydirs = append(mydirs, p)
				}
			}
		}
		nf := 1 + r.Intn(6)
		for j := 0; j < nf; j++ {
			dd := mydirs[r.Intn(len(mydirs))]
			nm := names[r.Intn(len(names))]
			if r.Chance(1, 4) {
				nm = "index.html"
			}
			p := nm
			if dd != "" {
				p = dd + "/" + nm
			}
			if used[p] {
				continue
			}
			used[p] = true
			content := r.Bytes([]int{0, 1, 10, 300, 5000}[r.Intn(5)])
			if r.Bool() {
				content = []byte("<html>" + string(alnumBytes(r, r.Intn(50))) + "</html>")
			}
			tree = append(tree, L(B([]byte(p)), Zi(0), B(content)))
		}
		ver := "b2"
		if i%5 == 4 {
			ver = "b1"
		}
		cs = append(cs, Case{"cli_gen_dir", []Sx{Sym(ver), B([]byte(bases[r.Intn(len(bases))])), L(tree...), Sym([]string{"abs", "abs", "dot", "slash", "updown", "cwd"}[r.Intn(6)])}})
		if i%4 == 0 {
			// sign the same kind of tree with both sub-commands
			simple := []Sx{L(B([]byte("")), Zi(1), B(nil)), L(B([]byte("index.html")), Zi(0), B([]byte("<html>hi</html>"))), L(B([]byte("a b#c.txt")), Zi(0), B(r.Bytes(100))), L(B([]byte("sub")), Zi(1), B(nil)), L(B([]byte("sub/x?.js")), Zi(0), B(r.Bytes(5000)))}
			cs = append(cs, Case{"cli_chain", []Sx{Sym("signbundle"), Sym(ver), L(simple...), Sym([]string{"sec1", "pkcs8", "encrypted", "params", "bagtext"}[r.Intn(5)]), Zi(int64([]int{1, 16, 4096, 16384}[r.Intn(4)])), Zi(int64(r.Intn(2))), Zi(int64(r.Intn(4)))}})
		}
	}
	// files named like the tools' own outputs are ordinary files of the tree
	{
		tree := []Sx{L(B([]byte("")), Zi(1), B(nil)), L(B([]byte("index.html")), Zi(0), B([]byte("<html>hi</html>"))), L(B([]byte("out.wbn")), Zi(0), B([]byte("not a bundle"))),
			L(B([]byte("downloads")), Zi(1), B(nil)), L(B([]byte("downloads/out.wbn")), Zi(0), B(r.Bytes(50))), L(B([]byte("downloads/in.wbn")), Zi(0), B(r.Bytes(5)))}
		for _, ver := range []string{"b1", "b2"} {
			cs = append(cs, Case{"cli_gen_dir", []Sx{Sym(ver), B([]byte("https://example.com/site/")), L(tree...), Sym("abs")}})
		}
	}
	// a b1 bundle with a manifest section, signed and dumped
	{
		simple := []Sx{L(B([]byte("")), Zi(1), B(nil)), L(B([]byte("index.html")), Zi(0), B([]byte("<html>hi</html>"))), L(B([]byte("manifest.json")), Zi(0), B([]byte("{}")))}
		cs = append(cs, Case{"cli_chain", []Sx{Sym("signbundle"), Sym("b1"), L(simple...), Sym("sec1"), Zi(16), Zi(1), Zi(2)}})
		cs = append(cs, Case{"cli_chain", []Sx{Sym("signbundle"), Sym("b2"), L(simple...), Sym("pkcs8"), Zi(16), Zi(0), Zi(3)}})
	}
	// inputs sign-bundle must refuse rather than emit a bundle that does not verify
	for i, k := range []string{"keymismatch", "keymismatch", "rs0", "rsneg", "rs16385", "emptydigest", "seconddigest"} {
		cs = append(cs, Case{"cli_sign_refuse", []Sx{Sym(k), Zi(int64(i))}})
	}
	// Bundle.Validate through gen-bundle (no -ignoreErrors): the primary URL must have an exchange
	{
		tree := []Sx{L(B([]byte("")), Zi(1), B(nil)), L(B([]byte("index.html")), Zi(0), B([]byte("<html>hi</html>"))), L(B([]byte("a.txt")), Zi(0), B([]byte("aaa")))}
		for _, ver := range []string{"b1", "b2"} {
			for _, pu := range []string{"https://example.com/site/", "https://example.com/site/a.txt", "https://example.com/site/missing.txt", "https://example.com/other/", "https://example.com/site/index.html"} {
				cs = append(cs, Case{"cli_gen_primary", []Sx{Sym(ver), B([]byte(pu)), L(tree...)}})
			}
		}
	}
	// HAR: the Variants rule for repeated URLs (kept only if every entry for the URL carries Variants), and
	// headers after a pseudo header
	for i := 0; i < 12; i++ {
		u := "https://example.com/v"
		mk := func(hasV bool, body string) Sx {
			hs := []Sx{L(B([]byte(":status")), B([]byte("200"))), L(B([]byte("Content-Type")), B([]byte("text/plain")))}
			if hasV {
				hs = append(hs, L(B([]byte("Variants")), B([]byte("Accept-Language;en;fr"))), L(B([]byte("Variant-Key")), B([]byte(body))))
			}
			hs = append(hs, L(B([]byte("X-After")), B([]byte("kept"))))
			return L(B([]byte(u)), B([]byte("GET")), Zi(200), L(hs...), B([]byte(body)), Zi(0))
		}
		pat := [][]bool{{true, true}, {true, false}, {false, true}, {false, false}, {true, false, true}, {false, true, true}}[i%6]
		ents := []Sx{}
		for j, v := range pat {
			ents = append(ents, mk(v, []string{"en", "fr", "en"}[j]))
		}
		if i < 6 {
			cs = append(cs, Case{"cli_gen_har", []Sx{Sym("b1"), B([]byte("https://example.com/v")), L(ents...)}})
		} else {
			cs = append(cs, Case{"cli_gen_har", []Sx{Sym("b2"), L(), L(ents...)}})
		}
	}
	// HAR captures: GET / non-GET entries, banned and pseudo headers, base64 bodies, repeated URLs,
	// odd statuses, header values outside ASCII
	nh := 30
	if tier == "thorough" {
		nh = 400
	}
	hnames := []string{"Content-Type", "content-length", "Server", "X-Custom", ":status", "Set-Cookie", "Connection", "Keep-Alive", "Cache-Control", "ETag", "Variants", "Variant-Key", "Strict-Transport-Security", "Public-Key-Pins", "X-Empty"}
	for i := 0; i < nh; i++ {
		ents := []Sx{}
		for j := 1 + r.Intn(5); j > 0; j-- {
			u := []string{"https://example.com/", "https://example.com/a.js", "https://example.com/img/x.png?v=1", "https://cdn.example.org/lib.css", "https://example.com/a%20b", "http://example.com/plain"}[r.Intn(6)]
			if r.Chance(1, 15) {
				u = []string{"https://example.com/#frag", "https://user:pw@example.com/", "/relative"}[r.Intn(3)]
			}
			method := "GET"
			if r.Chance(1, 5) {
				method = []string{"POST", "HEAD", "get", "OPTIONS"}[r.Intn(4)]
			}
			status := []int{200, 200, 200, 404, 301, 304, 204, 100, 999}[r.Intn(9)]
			if r.Chance(1, 12) {
				status = []int{0, 99, 1000, -1}[r.Intn(4)]
			}
			hs := []Sx{}
			for k := r.Intn(5); k > 0; k-- {
				v := string(asciiBytes(r, r.Intn(12)))
				if r.Chance(1, 10) {
					v = []string{"caf\u00e9", "\u65e5\u672c", "na\u00efve; q=1"}[r.Intn(3)]
				}
				hs = append(hs, L(B([]byte(hnames[r.Intn(len(hnames))])), B([]byte(v))))
			}
			var text []byte
			b64 := 0
			switch r.Intn(4) {
			case 0:
				text = []byte("<html>" + string(alnumBytes(r, r.Intn(40))) + "</html>")
			case 1:
				text = []byte("caf\u00e9 \u65e5\u672c " + string(alnumBytes(r, r.Intn(10))))
			case 2:
				text = []byte(base64.StdEncoding.EncodeToString(r.Bytes(r.Intn(60))))
				b64 = 1
			case 3:
				text = []byte(base64.StdEncoding.EncodeToString(r.Bytes(1 + r.Intn(30))))
				b64 = 1
				if r.Chance(1, 3) { // damaged base64
					text = append(text[:len(text)-1], []byte{'!', '=', '\n'}[r.Intn(3)])
				}
			}
			ents = append(ents, L(B([]byte(u)), B([]byte(method)), Zi(int64(status)), L(hs...), B(text), Zi(int64(b64))))
		}
		if i%4 == 3 {
			cs = append(cs, Case{"cli_gen_har", []Sx{Sym("b1"), B([]byte("https://example.com/")), L(ents...)}})
		} else {
			cs = append(cs, Case{"cli_gen_har", []Sx{Sym("b2"), L(), L(ents...)}})
		}
	}
	// path escaping against net/url directly
	for _, nm := range names {
		cs = append(cs, Case{"escape_path", []Sx{B([]byte(nm))}})
	}
	for i := 0; i < 200; i++ {
		cs = append(cs, Case{"escape_path", []Sx{B(r.Bytes(1 + r.Intn(6)))}})
	}
	all := make([]byte, 256)
	for i := range all {
		all[i] = byte(i)
	}
	cs = append(cs, Case{"escape_path", []Sx{B(all)}})
	for _, p := range []string{"*", "**", "a*", "*a", "/*", "*/"} {
		cs = append(cs, Case{"escape_path", []Sx{B([]byte(p))}})
	}
	// cert chain and signed exchange tool chains
	m := 8
	if tier == "thorough" {
		m = 80
	}
	for i := 0; i < m; i++ {
		cs = append(cs, Case{"cli_chain", []Sx{Sym("certurl"), Zi(int64(i)), Sym("1b3"), Sym("sec1"), Zi(16), B(nil), Zi(int64(r.Intn(3)))}})
		cs = append(cs, Case{"cli_chain", []Sx{Sym("sxg"), Zi(int64(i)), Sym([]string{"1b1", "1b2", "1b3"}[i%3]), Sym([]string{"sec1", "pkcs8", "encrypted", "params", "bagtext"}[r.Intn(5)]),
			Zi(int64([]int{1, 16, 100, 4096, 16384}[r.Intn(5)])), B(r.Bytes([]int{0, 1, 16, 5000}[r.Intn(4)])), Zi(0), Zi(int64(r.Intn(2)))}})
	}
	return cs
}

func init() {
	regOp("cli_gen_dir", opCliGenDir)
	regOp("cli_chain", opCliChain)
	regOp("cli_gen_har", opCliGenHar)
	regOp("cli_sign_refuse", opCliSignRefuse)
	regOp("cli_gen_primary", opCliGenPrimary)
	regOp("escape_path", func(a []Sx) Sx { return B([]byte((&url.URL{Path: string(a[0].B)}).EscapedPath())) })
	regGen("C20", genC20)
}
