#!/bin/sh
# Which statements of /repo do the correspondence cases execute?  (Not a check: a measurement that shows
# where a change could hide from the generators.)  Builds the harness and the CLI tools with -cover,
# runs every quick check once, prints the percentage per package and every block never executed.
# usage: tools/coverage.sh [property ids...]        (default: all twenty)
set -e
cd "$(dirname "$0")/.."
REPO=${VERIF_REPO:-/repo}
export GOFLAGS=-mod=mod GOPROXY=off GOSUMDB=off GOTOOLCHAIN=local
COV=$(mktemp -d)
trap 'rm -rf "$COV"' EXIT
PROPS=${*:-C01 C02 C03 C04 C05 C06 C07 C08 C09 C10 C11 C12 C13 C14 C15 C16 C17 C18 C19 C20}
for p in $PROPS; do GOCOVERDIR="$COV" ./check "$p" 2>&1 | tail -1; done
( cd "$REPO" && go tool covdata percent -i="$COV" | grep -v verifharness )
( cd "$REPO" && go tool covdata textfmt -i="$COV" -o "$COV/cov.txt" )
python3 tools/coverage_report.py "$COV/cov.txt" "$REPO"
# leave the ordinary (uninstrumented) binaries behind
./check C13 >/dev/null 2>&1 || true
