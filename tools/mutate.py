#!/usr/bin/env python3
"""mutate.py [--max-per-file N] [--seed S] [--only substr]
Automatic mutation run used to look for gaps in the correspondence generators
(not part of any registered check).  Works on scratch copies only:
  /tmp/repo_mut   a git worktree of /repo
  /tmp/verif_mut  a copy of /verif whose harness module replaces => /tmp/repo_mut
For every mutant of the anchored Go files: build, run the whole test suite; a
mutant that survives the tests is handed to the quick checks of the properties
mapped to its file.  Results: /tmp/mut_results.jsonl (one JSON per mutant)."""
import os, re, sys, json, subprocess, random, shutil, time

ENV = dict(os.environ, GOFLAGS="-mod=mod", GOPROXY="off", GOSUMDB="off", GOTOOLCHAIN="local")
REPO_MUT = "/tmp/repo_mut"
VERIF_MUT = "/tmp/verif_mut"
OUT = "/tmp/mut_results2.jsonl"

FILES = {
    "go/internal/cbor/encoder.go": ["C11", "C19"],
    "go/internal/cbor/decoder.go": ["C12", "C10"],
    "go/internal/cbor/deterministic.go": ["C13"],
    "go/internal/cbor/addinfo.go": ["C13"],
    "go/signedexchange/mice/mice.go": ["C14", "C15", "C19"],
    "go/signedexchange/structuredheader/parser.go": ["C16"],
    "go/signedexchange/structuredheader/writer.go": ["C16"],
    "go/signedexchange/internal/bigendian/bigendianint.go": ["C08", "C02"],
    "go/signedexchange/signedexchange.go": ["C02", "C08", "C19", "C01"],
    "go/signedexchange/signer.go": ["C08", "C01"],
    "go/signedexchange/verifier.go": ["C09", "C01", "C02"],
    "go/signedexchange/stateful_headers.go": ["C09"],
    "go/signedexchange/version/version.go": ["C08", "C02"],
    "go/signedexchange/certurl/certchain.go": ["C17"],
    "go/signedexchange/certurl/sct.go": ["C17"],
    "go/bundle/encoder.go": ["C03", "C04", "C19"],
    "go/bundle/decoder.go": ["C05", "C03", "C10"],
    "go/bundle/countingwriter.go": ["C04", "C19"],
    "go/bundle/bundle.go": ["C06", "C20"],
    "go/bundle/version/version.go": ["C03", "C06"],
    "go/bundle/signature/signer.go": ["C06", "C20"],
    "go/bundle/signature/verifier.go": ["C06", "C10"],
    "go/integrityblock/integrityblock.go": ["C07"],
    "go/integrityblock/integrityblock-signer.go": ["C07", "C20"],
    "go/integrityblock/webbundleid/web-bundle-id.go": ["C07"],
    "go/internal/signingalgorithm/signingalgorithm.go": ["C01", "C06"],
    "go/bundle/cmd/gen-bundle/fromdir.go": ["C20"],
    "go/bundle/cmd/gen-bundle/fromhar.go": ["C20"],
}

OPS = [
    (re.compile(r"(?<![<>=!:])<=(?!=)"), "<"), (re.compile(r"(?<![<>=!:-])>=(?!=)"), ">"),
    (re.compile(r"(?<![<>=!:\-])<(?![<=\-])"), "<="), (re.compile(r"(?<![<>=!:\-])>(?![>=])"), ">="),
    (re.compile(r"=="), "!="), (re.compile(r"!="), "=="),
    (re.compile(r"&&"), "||"), (re.compile(r"\|\|"), "&&"),
    (re.compile(r"\btrue\b"), "false"), (re.compile(r"\bfalse\b"), "true"),
    (re.compile(r"\+ 1\b"), "+ 2"), (re.compile(r"- 1\b"), "- 0"), (re.compile(r"\+ 2\b"), "+ 1"),
    (re.compile(r"\bif err != nil \{"), "if false {"),
    (re.compile(r"\bcontinue\b"), "break"),
    (re.compile(r"(?<![\w.])(\d{2,6})(?![\w.])"), None),      # integer literal +-1
]


def sh(cmd, cwd=None, timeout=900):
    try:
        r = subprocess.run(cmd, cwd=cwd, shell=isinstance(cmd, str), stdout=subprocess.PIPE,
                           stderr=subprocess.STDOUT, text=True, env=ENV, timeout=timeout)
        return r.returncode, r.stdout
    except subprocess.TimeoutExpired:
        return 124, "timeout"


def strip_code(line):
    # ignore comments and string literals for matching
    code = line.split("//")[0]
    return code


def mutants_of(path, text):
    out = []
    lines = text.split("\n")
    in_block_comment = False
    for i, line in enumerate(lines):
        s = line.strip()
        if s.startswith("/*"):
            in_block_comment = True
        if in_block_comment:
            if "*/" in s:
                in_block_comment = False
            continue
        if not s or s.startswith("//") or s.startswith("import") or s.startswith("package") or s.startswith('"'):
            continue
        code = strip_code(line)
        if '"' in code and ("Errorf" in code or "errors.New" in code or "Printf" in code or "Println" in code or "panic(" in code):
            continue      # messages only
        for rx, rep in OPS:
            for m in rx.finditer(code):
                if '"' in code[:m.start()] and code[:m.start()].count('"') % 2 == 1:
                    continue      # inside a string literal
                if rep is None:
                    v = int(m.group(1))
                    for nv in (v + 1, v - 1):
                        new = code[:m.start()] + str(nv) + code[m.end():] + line[len(code):]
                        out.append((i, line, new, "%d->%d" % (v, nv)))
                else:
                    new = code[:m.start()] + rep + code[m.end():] + line[len(code):]
                    out.append((i, line, new, "%s->%s" % (m.group(0), rep)))
    return out


def setup():
    if not os.path.exists(REPO_MUT):
        sh(["git", "-C", "/repo", "worktree", "add", "--detach", REPO_MUT, "HEAD"])
    sh("git checkout -q --detach $(git -C /repo rev-parse HEAD) && git checkout -- . && git clean -fdq", cwd=REPO_MUT)
    if os.path.exists(VERIF_MUT):
        shutil.rmtree(VERIF_MUT)
    sh(["rsync", "-a", "--exclude", ".git", "--exclude", ".work", "--exclude", "evidence", "--exclude", "seeded", "/verif/", VERIF_MUT + "/"])
    os.makedirs(VERIF_MUT + "/evidence", exist_ok=True)
    gm = open(VERIF_MUT + "/harness/go.mod").read().replace("=> /repo", "=> " + REPO_MUT)
    open(VERIF_MUT + "/harness/go.mod", "w").write(gm)
    # sanity: the copy is quiet on the unmutated tree for one property
    rc, out = sh(["./check", "C13"], cwd=VERIF_MUT, timeout=1200)
    print("sanity C13 on scratch copy:", rc, out.strip().split("\n")[-1])


def main():
    args = sys.argv[1:]
    maxper = 25; seed = 1; only = None
    while args:
        if args[0] == "--max-per-file": maxper = int(args[1]); args = args[2:]
        elif args[0] == "--seed": seed = int(args[1]); args = args[2:]
        elif args[0] == "--only": only = args[1]; args = args[2:]
        else: args = args[1:]
    rnd = random.Random(seed)
    global ENV
    setup()
    ENV = dict(ENV, VERIF_REPO=REPO_MUT)
    res = open(OUT, "a")
    for rel, props in FILES.items():
        if only and only not in rel:
            continue
        path = os.path.join(REPO_MUT, rel)
        text = open(path).read()
        ms = mutants_of(rel, text)
        rnd.shuffle(ms)
        ms = ms[:maxper]
        for (i, old, new, desc) in ms:
            lines = text.split("\n"); lines[i] = new
            open(path, "w").write("\n".join(lines))
            rec = {"file": rel, "line": i + 1, "op": desc, "old": old.strip(), "new": new.strip()}
            rc, out = sh("go build ./go/... && go vet -tags verif ./go/verifhook/ >/dev/null 2>&1; go build -tags verif ./go/...", cwd=REPO_MUT, timeout=300)
            if rc != 0:
                rec["status"] = "does-not-build"
            else:
                rc, out = sh("go test -vet=off -count=1 ./go/... 2>&1 | grep -v 'no test files'", cwd=REPO_MUT, timeout=600)
                if "FAIL" in out or "panic:" in out or rc == 124:
                    rec["status"] = "killed-by-tests"
                else:
                    caught = []
                    for p in props:
                        rc, out = sh(["./check", p], cwd=VERIF_MUT, timeout=1800)
                        if rc != 0:
                            caught.append(p)
                            break
                    rec["status"] = "caught" if caught else "SURVIVED"
                    rec["caught_by"] = caught
            open(path, "w").write(text)
            res.write(json.dumps(rec) + "\n"); res.flush()
            print(rec["status"], rel, i + 1, desc, "|", new.strip()[:90], flush=True)
    sh("git checkout -- .", cwd=REPO_MUT)


if __name__ == "__main__":
    main()
