#!/usr/bin/env python3
"""Writes MANIFEST.json from checklib/props.py (claimed checks) and
properties.jsonl (everything else goes to not_applicable with its reason)."""
import json, os, sys
ROOT = os.path.dirname(os.path.dirname(os.path.abspath(__file__)))
sys.path.insert(0, ROOT)
from checklib.props import PROPS
from checklib.manifest_text import TEXT, NOT_YET

ids = [json.loads(l)["id"] for l in open(os.path.join(ROOT, "properties.jsonl"))]
hooks = [l.split()[0] for l in open(os.path.join(ROOT, "MANIFEST.hooks")) if l.strip() and not l.startswith("#")]
baseline = ("cd /repo && export GOFLAGS=-mod=mod GOPROXY=off GOSUMDB=off && "
            "go build ./... && go test -vet=off -count=1 -timeout 25m ./...")
m = {
    "version": 1,
    "setup_cmd": "./setup.sh",
    "hooks": {
        "guard": "verif",
        "enable": "go build -tags verif (harness module /verif/harness with replace => /repo)",
        "baseline_off_cmd": baseline,
        "source_commits": hooks,
        "add_only": True,
    },
    "engines": [{
        "name": "rocq-model",
        "path": "coq/",
        "serves_properties": sorted(PROPS),
        "kind_free_text": "Coq 8.16.1 development: executable Gallina model of the Go code (Model/), independent "
                          "specification (Spec/), proofs (Proofs/), statements (Properties/); extracted to OCaml "
                          "(ocaml/runner) and compared with the Go implementation by the harness (harness/)."}],
    "checks": [],
    "not_applicable": [],
    "notes": "See DESIGN.md. Every check: ./check <id> (VERIF_TIER / --tier, VERIF_SEED honoured).",
}
for i in ids:
    if i in PROPS:
        t = TEXT[i]
        m["checks"].append({
            "property_id": i,
            "quick_cmd": "./check %s --tier quick" % i,
            "thorough_cmd": "./check %s --tier thorough" % i,
            "evidence_file": "/verif/evidence/%s.json" % i,
            "replay_cmd_template": "./check %s --replay {path}" % i,
            "engine": "rocq-model",
            "level_claimed": {"category": "proof", "text": t["text"], "design_ref": t.get("design_ref", "DESIGN.md §5 " + i)},
            "level_note": t["note"],
            "technique": t.get("technique", "Rocq (Coq 8.16.1) theorems over an executable Gallina model + "
                                            "differential correspondence of the extracted model with the Go code"),
        })
    else:
        m["not_applicable"].append({"property_id": i, "reason": NOT_YET.get(i, "machinery for this property is not built yet in this tree; nothing is claimed")})
json.dump(m, open(os.path.join(ROOT, "MANIFEST.json"), "w"), indent=1)
print("MANIFEST.json: %d checks, %d not_applicable" % (len(m["checks"]), len(m["not_applicable"])))
