#!/usr/bin/env python3
"""seed_eval.py <seed-dir> <property-id> [more property ids...]
Confirms a seeded change independently (scratch worktree: builds, whole test
suite passes, demonstration fails with / passes without the change), then
applies it to /repo, runs the quick checks of the given properties, reverts,
and records the outcome under /verif/seeded/."""
import fcntl, sys, os, re, json, subprocess, shutil, glob

ENV = dict(os.environ, GOFLAGS="-mod=mod", GOPROXY="off", GOSUMDB="off", GOTOOLCHAIN="local")
WT = "/tmp/wt_eval"

def sh(cmd, cwd=None, timeout=1800):
    r = subprocess.run(cmd, cwd=cwd, shell=isinstance(cmd, str), stdout=subprocess.PIPE, stderr=subprocess.STDOUT, text=True, env=ENV, timeout=timeout)
    return r.returncode, r.stdout

def main():
    sd = os.path.abspath(sys.argv[1]); props = sys.argv[2:]
    name = os.path.basename(os.path.dirname(sd)).replace("seedout_", "") + "-" + os.path.basename(sd)
    if not name.startswith("R"):          # rounds 1 and 2: seedout_<prop>/<X>
        name = props[0] + "-" + os.path.basename(sd) + "-" + os.path.basename(sd)
    patch = os.path.join(sd, "patch.diff")
    readme = open(os.path.join(sd, "README.md")).read() if os.path.exists(os.path.join(sd, "README.md")) else ""
    demos = glob.glob(os.path.join(sd, "*_test.go"))
    m = re.search(r"(go/[\w/\-\.]+_test\.go)", readme)
    meta = {"property": props[0], "checked_against": props, "source": sd}
    if not os.path.exists(WT):
        sh(["git", "-C", "/repo", "worktree", "add", "--detach", WT, "HEAD"])
    sh("git checkout -q --detach $(git -C /repo rev-parse HEAD) && git checkout -- . && git clean -fdq", cwd=WT)
    rc, out = sh(["git", "apply", "--check", patch], cwd=WT)
    if rc != 0:
        print("PATCH DOES NOT APPLY:", out[:500]); meta["confirmed"] = False; meta["why"] = "patch does not apply"; return finish(name, sd, meta)
    sh(["git", "apply", patch], cwd=WT)
    rc_b, out_b = sh("go build ./go/... ", cwd=WT)
    rc_t, out_t = sh("go test -vet=off -count=1 ./go/... 2>&1 | grep -v 'no test files'", cwd=WT)
    suite_ok = rc_b == 0 and "FAIL" not in out_t
    meta["builds"] = rc_b == 0; meta["suite_passes_with_change"] = suite_ok
    demo_with = demo_without = None
    if demos and m:
        dst = os.path.join(WT, m.group(1)); shutil.copy(demos[0], dst)
        pkg = "./" + os.path.dirname(m.group(1)) + "/"
        # a demonstration that needs the race detector / must run alone says so in its README
        mrun = re.search(r"-run[ =]+([A-Za-z0-9_]+)", readme)
        if "-race" in readme:
            pkg = "-race " + ("-run %s " % mrun.group(1) if mrun else "") + pkg
            ENV["CGO_ENABLED"] = "1"
        rc1, o1 = sh("go test -vet=off -count=1 %s 2>&1 | tail -15" % pkg, cwd=WT)
        demo_with = "FAIL" in o1
        sh(["git", "apply", "-R", patch], cwd=WT)
        rc2, o2 = sh("go test -vet=off -count=1 %s 2>&1 | tail -5" % pkg, cwd=WT)
        demo_without = "FAIL" not in o2 and "ok" in o2
        os.remove(dst)
        meta["demo_file"] = m.group(1)
    sh("git checkout -- . && git clean -fdq", cwd=WT)
    meta["demo_fails_with_change"] = demo_with; meta["demo_passes_without_change"] = demo_without
    meta["confirmed"] = bool(suite_ok and demo_with and demo_without)
    print("confirm: builds=%s suite_ok=%s demo_fails_with=%s demo_passes_without=%s" % (rc_b == 0, suite_ok, demo_with, demo_without))
    # run the checks against /repo with the change applied (serialised with other users of /repo)
    lockf = open("/tmp/repo.lock", "w"); fcntl.flock(lockf, fcntl.LOCK_EX)
    rc, out = sh(["git", "-C", "/repo", "status", "--porcelain"])
    if out.strip():
        print("/repo is dirty, refusing"); return 2
    sh(["git", "-C", "/repo", "apply", patch])
    results = {}
    try:
        for p in props:
            rc, out = sh(["./check", p, "--tier", "quick"], cwd="/verif", timeout=3000)
            viol = [l for l in out.split("\n") if l.startswith("VIOLATION")]
            results[p] = {"exit": rc, "violations": len(viol), "first": viol[:2], "summary": out.strip().split("\n")[-1][:300]}
            print(p, "exit", rc, "violations", len(viol), "|", results[p]["summary"])
    finally:
        sh(["git", "-C", "/repo", "checkout", "--", "."]); sh(["git", "-C", "/repo", "clean", "-fdq", "go"])
    meta["check_results"] = results
    meta["caught_by"] = [p for p, r in results.items() if r["exit"] != 0]
    return finish(name, sd, meta)

def finish(name, sd, meta):
    if meta.get("confirmed"):
        d = os.path.join("/verif/seeded", name); os.makedirs(d, exist_ok=True)
        for f in os.listdir(sd):
            if os.path.isfile(os.path.join(sd, f)):
                shutil.copy(os.path.join(sd, f), d)
        json.dump(meta, open(os.path.join(d, "meta.json"), "w"), indent=1)
        print("kept as", d, "caught_by", meta.get("caught_by"))
    else:
        print("NOT confirmed, not kept:", json.dumps(meta)[:400])
    return 0

if __name__ == "__main__":
    sys.exit(main())
