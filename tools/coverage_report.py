#!/usr/bin/env python3
"""coverage_report.py <cov.txt> <repo>: the blocks of /repo's library packages never executed by the
correspondence runs (command packages are listed with --cmd)."""
import re, collections, sys
cov, repo = sys.argv[1], sys.argv[2]
blocks = {}
for l in open(cov):
    m = re.match(r'(.*):(\d+)\.(\d+),(\d+)\.(\d+) (\d+) (\d+)', l)
    if not m or 'verifharness' in m.group(1):
        continue
    f, sl, sc, el, ec, n, c = m.groups()
    k = (f, int(sl), int(sc), int(el), int(ec))
    blocks[k] = max(blocks.get(k, 0), int(c))
unc = collections.defaultdict(list)
for (f, sl, sc, el, ec), c in sorted(blocks.items()):
    if c == 0:
        unc[f].append((sl, el))
for f in sorted(unc):
    if '/cmd/' in f and '--cmd' not in sys.argv:
        continue
    rel = f.replace('github.com/WICG/webpackage/', '')
    src = open(repo + '/' + rel).read().split('\n')
    print('==', rel)
    for sl, el in unc[f]:
        print('  %d-%d: %s' % (sl, el, ' | '.join(x.strip() for x in src[sl - 1:min(el, sl + 2)])[:150]))
