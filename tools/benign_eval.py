#!/usr/bin/env python3
"""benign_eval.py <patch-dir> <prop...>: apply a behaviour-preserving patch to /repo, run the quick
checks, revert; any non-zero exit is a FALSE ALARM to be analysed."""
import fcntl, sys, os, subprocess, json, shutil
ENV = dict(os.environ, GOFLAGS="-mod=mod", GOPROXY="off", GOSUMDB="off", GOTOOLCHAIN="local")
def sh(cmd, cwd=None, timeout=3000):
    r = subprocess.run(cmd, cwd=cwd, shell=isinstance(cmd, str), stdout=subprocess.PIPE, stderr=subprocess.STDOUT, text=True, env=ENV, timeout=timeout)
    return r.returncode, r.stdout
pd = os.path.abspath(sys.argv[1]); props = sys.argv[2:]
patch = os.path.join(pd, "patch.diff")
lockf = open("/tmp/repo.lock", "w"); fcntl.flock(lockf, fcntl.LOCK_EX)
rc, out = sh(["git", "-C", "/repo", "status", "--porcelain"])
if out.strip():
    print("/repo dirty"); sys.exit(2)
rc, out = sh(["git", "-C", "/repo", "apply", "--check", patch])
if rc != 0:
    print("patch does not apply:", out[:300]); sys.exit(0)
sh(["git", "-C", "/repo", "apply", patch])
res = {}
try:
    rc, out = sh("go build ./go/... && go test -vet=off -count=1 ./go/... 2>&1 | grep -v 'no test files'", cwd="/repo")
    res["suite_ok"] = "FAIL" not in out and rc == 0
    for p in props:
        rc, out = sh(["./check", p], cwd="/verif")
        res[p] = rc
        print(p, "exit", rc, "|", out.strip().split("\n")[-1][:160], flush=True)
        if rc != 0:
            viol = [l for l in out.split("\n") if l.startswith("VIOLATION")][:2]
            print("   FALSE ALARM?", viol, flush=True)
finally:
    sh(["git", "-C", "/repo", "checkout", "--", "."]); sh(["git", "-C", "/repo", "clean", "-fdq", "go"])
name = os.path.basename(os.path.dirname(pd)) + "-" + os.path.basename(pd)
d = "/verif/seeded/benign/" + name; os.makedirs(d, exist_ok=True)
for f in os.listdir(pd):
    if os.path.isfile(os.path.join(pd, f)): shutil.copy(os.path.join(pd, f), d)
json.dump({"kind": "behaviour-preserving rewrite", "checks_run": props, "results": res,
           "alarms": [p for p in props if res.get(p)]}, open(d + "/meta.json", "w"), indent=1)
print(name, "alarms:", [p for p in props if res.get(p)])
