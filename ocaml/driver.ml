(* Line-protocol runner around the extracted model (model.ml).
   stdin : one case per line   op <TAB> args-sexp [<TAB> impl-sexp]
   stdout: one line per case   with impl:  "ok" | "diff <expected-sexp>"
                               without  :  the model's result sexp
   Hand-written glue: s-expression reader/printer and decimal <-> binary
   number conversion only.  Everything else is extracted Coq. *)
type positive = Model.positive = XI of positive | XO of positive | XH
type n = Model.n = N0 | Npos of positive
type z = Model.z = Z0 | Zpos of positive | Zneg of positive
type sx = Model.sx = SZ of z | SB of n list | SL of sx list
let dispatch = Model.dispatch
let judge = Model.judge

(* ---- decimal strings <-> Coq binary numbers ---------------------------- *)
(* digits: int array, most significant first *)
let div2 (d : int array) : int array * int =
  let n = Array.length d in
  let q = Array.make n 0 in
  let r = ref 0 in
  for i = 0 to n - 1 do
    let cur = !r * 10 + d.(i) in
    q.(i) <- cur / 2; r := cur mod 2
  done; (q, !r)

let is_zero d = Array.for_all (fun x -> x = 0) d

let rec pos_of_digits (d : int array) : positive =
  (* d > 0 *)
  let (q, r) = div2 d in
  if is_zero q then XH
  else if r = 1 then XI (pos_of_digits q) else XO (pos_of_digits q)

let z_of_string (s : string) : z =
  let neg = String.length s > 0 && s.[0] = '-' in
  let body = if neg then String.sub s 1 (String.length s - 1) else s in
  if body = "" then failwith "empty number";
  let d = Array.init (String.length body) (fun i ->
    let c = body.[i] in
    if c < '0' || c > '9' then failwith ("bad number " ^ s);
    Char.code c - 48) in
  if is_zero d then Z0
  else let p = pos_of_digits d in if neg then Zneg p else Zpos p

(* decimal printing: digits little-endian in a Buffer of ints *)
let double_plus (d : int list) (c : int) : int list =
  (* d little-endian *)
  let rec go d carry = match d with
    | [] -> if carry = 0 then [] else [carry]
    | x :: t -> let v = 2 * x + carry in (v mod 10) :: go t (v / 10)
  in go d c

let rec digits_of_pos (p : positive) : int list =
  match p with
  | XH -> [1]
  | XO q -> double_plus (digits_of_pos q) 0
  | XI q -> double_plus (digits_of_pos q) 1

let string_of_pos p =
  let d = digits_of_pos p in
  String.concat "" (List.rev_map string_of_int d)

let string_of_z = function
  | Z0 -> "0"
  | Zpos p -> string_of_pos p
  | Zneg p -> "-" ^ string_of_pos p

(* ---- bytes ------------------------------------------------------------- *)
let rec pos_of_int (i : int) : positive =
  if i = 1 then XH
  else if i land 1 = 1 then XI (pos_of_int (i lsr 1)) else XO (pos_of_int (i lsr 1))
let n_of_int (i : int) : n = if i = 0 then N0 else Npos (pos_of_int i)
let byte_tab : n array = Array.init 256 n_of_int

let rec int_of_pos = function
  | XH -> 1 | XO p -> 2 * int_of_pos p | XI p -> 2 * int_of_pos p + 1
let int_of_n = function N0 -> 0 | Npos p -> int_of_pos p

let hexval c =
  match c with
  | '0'..'9' -> Char.code c - 48
  | 'a'..'f' -> Char.code c - 87
  | _ -> failwith "bad hex"

let bytes_of_hex (s : string) (off : int) : n list =
  let len = String.length s - off in
  if len mod 2 <> 0 then failwith "odd hex";
  let rec go i acc =
    if i < 0 then acc
    else go (i - 1) (byte_tab.(hexval s.[off + 2*i] * 16 + hexval s.[off + 2*i + 1]) :: acc)
  in go (len / 2 - 1) []

let bytes_of_word (s : string) : n list =
  List.init (String.length s) (fun i -> byte_tab.(Char.code s.[i]))

(* ---- s-expressions ----------------------------------------------------- *)
let is_word_start c = (c >= 'a' && c <= 'z' && c <> 'x') || c = '_'
let is_word_char c = (c >= 'a' && c <= 'z') || (c >= '0' && c <= '9') || c = '_'

let parse_sx (s : string) : sx =
  let n = String.length s in
  let pos = ref 0 in
  let skip () = while !pos < n && s.[!pos] = ' ' do incr pos done in
  let rec item () : sx =
    skip ();
    if !pos >= n then failwith "eof";
    if s.[!pos] = '(' then begin
      incr pos;
      let acc = ref [] in
      let fin = ref false in
      while not !fin do
        skip ();
        if !pos >= n then failwith "unclosed";
        if s.[!pos] = ')' then (incr pos; fin := true)
        else acc := item () :: !acc
      done;
      SL (List.rev !acc)
    end else begin
      let st = !pos in
      while !pos < n && s.[!pos] <> ' ' && s.[!pos] <> '(' && s.[!pos] <> ')' do incr pos done;
      let tok = String.sub s st (!pos - st) in
      if tok = "" then failwith "empty token";
      let c = tok.[0] in
      if c = 'x' then SB (bytes_of_hex tok 1)
      else if c = '-' || (c >= '0' && c <= '9') then SZ (z_of_string tok)
      else SB (bytes_of_word tok)
    end
  in
  let r = item () in
  skip ();
  if !pos <> n then failwith "trailing garbage";
  r

let hexdig = "0123456789abcdef"
let rec print_sx (b : Buffer.t) (s : sx) : unit =
  match s with
  | SZ z -> Buffer.add_string b (string_of_z z)
  | SB bs ->
      let ints = List.map int_of_n bs in
      let wordy =
        match ints with
        | [] -> false
        | c :: _ ->
            is_word_start (Char.chr (c land 255)) && c < 256
            && List.for_all (fun c -> c < 256 && is_word_char (Char.chr c)) ints in
      if wordy then List.iter (fun c -> Buffer.add_char b (Char.chr c)) ints
      else begin
        Buffer.add_char b 'x';
        List.iter (fun c ->
          if c > 255 then failwith "byte out of range";
          Buffer.add_char b hexdig.[c lsr 4];
          Buffer.add_char b hexdig.[c land 15]) ints
      end
  | SL l ->
      Buffer.add_char b '(';
      List.iteri (fun i x -> if i > 0 then Buffer.add_char b ' '; print_sx b x) l;
      Buffer.add_char b ')'

let string_of_sx s = let b = Buffer.create 256 in print_sx b s; Buffer.contents b

let split_tabs (s : string) : string list = String.split_on_char '\t' s

let () =
  let out = Buffer.create 65536 in
  (try
    while true do
      let line = input_line stdin in
      (match split_tabs line with
       | [op; args] ->
           let a = match parse_sx args with SL l -> l | _ -> failwith "args not a list" in
           Buffer.add_string out (string_of_sx (dispatch (bytes_of_word op) a))
       | [op; args; impl] ->
           let a = match parse_sx args with SL l -> l | _ -> failwith "args not a list" in
           let i = parse_sx impl in
           (match judge (bytes_of_word op) a i with
            | SL [SB w] -> Buffer.add_string out (String.concat "" (List.map (fun c -> String.make 1 (Char.chr (int_of_n c))) w))
            | SL [SB _; m] -> Buffer.add_string out "diff "; Buffer.add_string out (string_of_sx m)
            | v -> Buffer.add_string out "diff "; Buffer.add_string out (string_of_sx v))
       | _ -> Buffer.add_string out "badline");
      Buffer.add_char out '\n';
      if Buffer.length out > 60000 then (print_string (Buffer.contents out); Buffer.clear out)
    done
  with End_of_file -> ());
  print_string (Buffer.contents out)
